"""Observation harness: run source (exec) or converted text (eval) in a fresh namespace and
return a canonical observation that never contains addresses or helper names."""
import builtins
import contextlib
import io
import re
import sys
import types

from . import core

ALLOWED_EXTRA = ("itertools", "importlib")
_ADDR = re.compile(r" at 0x[0-9a-fA-F]+")
# qualified-name prefixes and addresses inside default reprs are metadata (C01 excludes __qualname__)
_QUAL = re.compile(r"(?:\w+\.<locals>\.)+|0x[0-9a-fA-F]+")
_META = {
    "__module__",
    "__qualname__",
    "__doc__",
    "__dict__",
    "__weakref__",
    "__firstlineno__",
    "__static_attributes__",
    "__annotations__",
    "__annotate__",
    "__annotate_func__",
    "__annotations_cache__",
    "__classdictcell__",
    "__classcell__",
    "__orig_bases__",
    "__parameters__",
    "__type_params__",
}


def canon(v, depth=0, seen=None):
    """Structural canonical form (hashable, repr-stable)."""
    if seen is None:
        seen = set()
    if depth > 6:
        return ("deep",)
    t = type(v)
    if v is None or t in (bool, int, str, bytes, complex):
        return (t.__name__, repr(v))
    if t is float:
        return ("float", repr(v))
    if v is Ellipsis or v is NotImplemented:
        return (repr(v),)
    if id(v) in seen:
        return ("cycle",)
    if t in (list, tuple):
        seen = seen | {id(v)}
        return (t.__name__,) + tuple(canon(x, depth + 1, seen) for x in v)
    if t in (set, frozenset):
        seen = seen | {id(v)}
        return (t.__name__,) + tuple(sorted((canon(x, depth + 1, seen) for x in v), key=repr))
    if t is dict:
        seen = seen | {id(v)}
        return ("dict",) + tuple(
            (canon(k, depth + 1, seen), canon(x, depth + 1, seen)) for k, x in v.items()
        )
    if t in (range, slice):
        return (t.__name__, repr(v))
    if isinstance(v, (types.FunctionType, types.BuiltinFunctionType, types.MethodType, types.LambdaType)):
        return ("function",)
    if isinstance(v, types.ModuleType):
        return ("module", v.__name__)
    if isinstance(v, (staticmethod, classmethod)):
        return (t.__name__, canon(v.__func__, depth + 1, seen))
    if isinstance(v, property):
        return ("property", v.fget is not None, v.fset is not None, v.fdel is not None)
    if isinstance(v, type):
        if v.__module__ == "builtins" and getattr(builtins, v.__name__, None) is v:
            return ("builtin-class", v.__name__)
        seen = seen | {id(v)}
        members = tuple(
            sorted(
                (k, canon(x, depth + 1, seen))
                for k, x in vars(v).items()
                if k not in _META
            )
        )
        return (
            "class",
            v.__name__,
            tuple(c.__name__ for c in v.__mro__),
            type(v).__name__,
            members,
        )
    if isinstance(v, types.GeneratorType):
        return ("generator",)
    d = getattr(v, "__dict__", None)
    if isinstance(d, dict) and t.__module__ != "builtins":
        seen = seen | {id(v)}
        return (
            "inst",
            t.__name__,
            tuple(sorted((k, canon(x, depth + 1, seen)) for k, x in d.items() if not k.startswith("__ol_"))),
        )
    r = _ADDR.sub("", repr(v)) if t.__repr__ is not object.__repr__ else "<obj>"
    return ("obj", t.__name__, core.scrub(r))


class Obs:
    __slots__ = ("outcome", "stdout", "globals", "bound_helpers")

    def __init__(self, outcome, stdout, globs, bound_helpers=()):
        self.outcome, self.stdout, self.globals = outcome, stdout, globs
        self.bound_helpers = bound_helpers

    def short(self):
        return {"outcome": self.outcome, "stdout": self.stdout[-400:], "globals": repr(self.globals)[:600]}


def run(code, mode, env=None, limit=5.0, name="__main__"):
    """code: a code object or text. mode: 'exec' | 'eval'. Returns (Obs, namespace)."""
    g = {"__name__": name, "__builtins__": builtins}
    if env:
        g.update(env)
    injected = set(g)
    out = io.StringIO()
    outcome = ("ok",)
    try:
        if isinstance(code, str):
            code = compile(code, "<src>" if mode == "exec" else "<out>", mode)
        with core.time_limit(limit), contextlib.redirect_stdout(out):
            if mode == "exec":
                exec(code, g)
            else:
                eval(code, g)
    except core.Timeout:
        outcome = ("timeout",)
    except RecursionError:
        outcome = ("exception", "RecursionError", "")
    except BaseException as e:
        if isinstance(e, (KeyboardInterrupt, SystemExit, core.HarnessError)):
            raise
        outcome = ("exception", type(e).__name__, core.scrub(e))
    globs = {}
    for k, v in g.items():
        if k in injected and (env is None or k not in env or g[k] is env[k]):
            continue
        if k in injected and k in ("__name__", "__builtins__"):
            continue
        if k.startswith("__ol_") or k == "__annotations__":
            # helper temporaries; annotations are metadata the lowering drops by design (C01 excludes metadata)
            continue
        try:
            globs[k] = canon(v)
        except BaseException as e:  # a hostile __repr__: record, do not crash the harness
            globs[k] = ("uncanon", type(e).__name__)
    return Obs(outcome, out.getvalue(), globs), g


def compare(ref, got):
    """C01's oracle. Returns None or a short description of the first difference."""
    if ref.outcome != got.outcome:
        return "outcome %r vs %r" % (ref.outcome, got.outcome)
    if ref.stdout != got.stdout and _QUAL.sub("", ref.stdout) != _QUAL.sub("", got.stdout):
        return "stdout differs: %r vs %r" % (ref.stdout[-120:], got.stdout[-120:])
    for k, v in ref.globals.items():
        if k not in got.globals:
            return "user global %r lost" % k
        if got.globals[k] != v:
            return "user global %r: %r vs %r" % (k, v, got.globals[k])
    for k in got.globals:
        if k not in ref.globals and k not in ALLOWED_EXTRA:
            return "extra global %r added" % k
    return None

"""C06's program space: scope trees. Node kinds M module (root), F def, C class, L lambda,
G list comprehension, E generator expression; each scope gets one role for the tracked name x
from the complete role catalogue. Every scope logs x before and after running its children;
the values written are the scope paths, so a read that resolves to the wrong variable logs the
wrong path."""
import itertools

ROLES = {
    "M": ["none", "read", "assign", "aug", "walrus", "for", "def", "class", "import", "comp", "fortuple", "whilewalrus", "forwalrus"],
    "F": ["none", "read", "kwread", "assign", "aug", "walrus", "param", "for", "comp", "gassign", "gread", "gaug", "nassign", "nread", "naug", "def", "class", "import", "kwparam", "starparam", "paramassign", "paramaug", "whilewalrus", "forwalrus", "posparam"],
    "C": ["none", "read", "kwread", "assign", "aug", "for", "gassign", "nassign", "readassign", "def", "import", "walrusless", "whilewalrus", "forwalrus", "condassign", "loopassign0"],
    "L": ["none", "read", "param", "walrus", "default", "compwalrus", "compwalrus@while"],
    "G": ["none", "read", "target", "walrus", "readiter", "readcond", "walrus@while", "walrus@for", "walrus@if", "read@while", "startarget", "tupletarget"],
    "E": ["none", "read", "target", "readiter", "walrus@while", "startarget"],
}
STMT_KINDS = ("M", "F", "C")


def trees(nscopes, maxdepth=4):
    """all trees with exactly nscopes scopes, root M, <= 2 children per scope"""

    def sub(n, depth):
        if n == 0:
            yield ()
            return
        if depth > maxdepth:
            return
        for t in one(n, depth):
            yield (t,)
        for n1 in range(1, n):
            for t1 in one(n1, depth):
                for t2 in one(n - n1, depth):
                    yield (t1, t2)

    def one(n, depth):
        for k in ("F", "C", "L", "G", "E"):
            for ch in sub(n - 1, depth + 1):
                if k in "LGE" and len(ch) > 1:
                    continue  # expression scopes: at most one nested child
                if k in "LGE" and ch and ch[0][0] in "FC":
                    continue  # no statements inside expression scopes
                yield (k, ch)

    for ch in sub(nscopes - 1, 2):
        yield ("M", ch)


CHAIN_ROLES = {
    "M": ["none", "assign"],
    "F": ["none", "read", "kwread", "assign", "param", "posparam", "gassign", "gread", "nassign", "nread", "naug"],
    "C": ["none", "read", "kwread", "assign", "gassign", "readassign", "condassign"],
    "L": ["read", "walrus", "compwalrus"],
    "G": ["read", "target", "walrus@while", "startarget"],
    "E": ["read"],
}


def deep_chains(nscopes):
    """chains (one child per scope) of exactly nscopes scopes with roles from the reduced catalogue CHAIN_ROLES"""
    def kinds(n, prev):
        if n == 0:
            yield ()
            return
        for k in ("F", "C", "L", "G", "E"):
            if prev in "LGE" and k in "FC":
                continue
            for rest in kinds(n - 1, k):
                yield (k,) + rest

    for ks in kinds(nscopes - 1, "M"):
        for roles in itertools.product(*[CHAIN_ROLES[k] for k in ("M",) + ks]):
            t = None
            for k, r in reversed(list(zip(("M",) + ks, roles))):
                t = (k, r, (t,) if t else ())
            yield t


def forks(full):
    """FORKS: module > function with TWO children over the reduced catalogue - a sibling scope A (def or class) that
    changes how the function's variable must be stored (nonlocal/global/closure forms), next to a chain B of one or two
    scopes that uses the name (both orders).  This is the smallest shape in which the lowering of one inner scope
    depends on what a *sibling* did to the variable; the full product reaches it only at 5 scopes.
    full=False: B is an expression-scope chain (lambda/comprehension/generator, <= 2 deep) or one def/class;
    full=True : B is any chain of <= 2 scopes."""
    singles = [(k, r, ()) for k in ("F", "C") for r in CHAIN_ROLES[k]]
    exprs1 = [(k, r, ()) for k in ("L", "G", "E") for r in CHAIN_ROLES[k]]
    B = list(singles) + list(exprs1)
    for k1, r1, _ in exprs1:
        for inner in exprs1:
            B.append((k1, r1, (inner,)))
    if full:
        for k1, r1, _ in singles:
            for inner in singles + exprs1:
                B.append((k1, r1, (inner,)))
    for mrole in CHAIN_ROLES["M"]:
        for frole in CHAIN_ROLES["F"]:
            for a in singles:
                for b in B:
                    yield ("M", mrole, (("F", frole, (a, b)),))
                    yield ("M", mrole, (("F", frole, (b, a)),))


def assign_roles(t):
    kind, ch = t
    child_opts = [list(assign_roles(c)) for c in ch]
    for r in ROLES[kind]:
        for combo in itertools.product(*child_opts):
            yield (kind, r, combo)


def key(t):
    kind, role, ch = t
    return "%s[%s]%s" % (kind, role, "(" + " ".join(key(c) for c in ch) + ")" if ch else "")


BALLAST = [False]  # see render(): every function also owns an unrelated captured variable


def gen(t, path, ind, out):
    kind, role, ch = t
    p = "    " * ind
    V = repr(path)

    def emit(s):
        out.append(p + s)

    if kind == "F" and BALLAST[0]:
        # an unrelated variable of this function that an inner function rebinds: the function needs its own storage for
        # captured variables, next to whatever the scopes around and inside it need for the tracked name
        emit("own_ = 0")
        emit("def bump_():")
        emit("    nonlocal own_")
        emit("    own_ += 1")
        emit("bump_()")

    if role in ("gassign", "gread", "gaug"):
        emit("global x")
    if role in ("nassign", "nread", "naug"):
        emit("nonlocal x")
    if role in ("assign", "gassign", "nassign", "paramassign"):
        emit("x = %s" % V)
    elif role in ("aug", "gaug", "naug", "paramaug"):
        emit("x += %s" % repr("+" + path))
    elif role == "walrus":
        emit('log(%s+":w", (x := %s))' % (V, V))
    elif role == "for":
        emit('for x in [%s+"0", %s+"1"]:' % (V, V))
        emit("    pass")
    elif role == "fortuple":
        emit('for y, (x, *z) in [(0, (%s+"0", 1)), (1, (%s+"1", 2))]:' % (V, V))
        emit("    log(%s+':ft', show(x))" % V)
    elif role == "whilewalrus":
        emit("n_ = 0")
        emit("while (x := %s + str(n_)) and n_ < 2:" % V)
        emit("    n_ += 1")
    elif role == "forwalrus":
        emit("for q_ in [(x := %s), 1]:" % V)
        emit("    pass")
    elif role == "comp":
        emit('log(%s+":c", [x for x in [%s+"c"]])' % (V, V))
    elif role == "def":
        emit("def x():")
        emit('    return %s+"fn"' % V)
    elif role == "class":
        emit("class x:")
        emit("    tag = %s" % V)
    elif role == "import":
        emit("import math as x")
    elif role == "readassign":
        emit('log(%s+":ra", show(x))' % V)
        emit("x = %s" % V)
    elif role == "condassign":
        # assigned only in a branch that is not taken: a later class-level read falls back to the global
        emit("if not show:")
        emit("    x = %s" % V)
    elif role == "loopassign0":
        emit("for x in []:")
        emit("    pass")
    elif role == "walrusless":
        emit("x = y = %s" % V)
    if role == "kwread":  # the name is read as the value of a keyword argument and of a ** mapping
        emit('log(%s+":kw", show(v=x), show(**{"v": x}))' % V)
    if role != "none":
        emit('log(%s+":pre", show(x))' % V)
    for i, c in enumerate(ch):
        cp = path + "." + c[0] + str(i)
        ck, cr, cch = c
        if ck == "F":
            params = {"param": "x", "kwparam": "*, x", "starparam": "*x", "paramassign": "x", "paramaug": "x", "posparam": "x, /"}.get(cr, "")
            emit("def f%d(%s):" % (i, params))
            body = []
            gen(c, cp, ind + 1, body)
            if not body:
                body = ["    " * (ind + 1) + "pass"]
            out.extend(body)
            call = {"param": repr(cp + "arg"), "kwparam": "x=" + repr(cp + "arg"), "starparam": repr(cp + "arg"), "paramassign": repr(cp + "arg"), "paramaug": repr(cp + "arg"), "posparam": repr(cp + "arg")}.get(cr, "")
            emit("f%d(%s)" % (i, call))
        elif ck == "C":
            emit("class K%d:" % i)
            body = []
            gen(c, cp, ind + 1, body)
            if not body:
                body = ["    " * (ind + 1) + "pass"]
            out.extend(body)
        else:
            call = 'log(%s+":val", %s)' % (repr(cp), expr(c, cp))
            host = cr.split("@")[1] if "@" in cr else ""
            if host == "while":  # the expression scope sits in the test of a while loop (evaluated once: log returns None)
                emit("n%d_ = 0" % i)
                emit("while n%d_ < 1 and %s is None:" % (i, call))
                emit("    n%d_ += 1" % i)
            elif host == "for":  # ... in the iterable of a for loop
                emit("for q%d_ in [%s]:" % (i, call))
                emit("    pass")
            elif host == "if":  # ... in the test of an if statement
                emit("if %s is None:" % call)
                emit("    pass")
            else:
                emit(call)
    if role != "none":
        emit('log(%s+":post", show(x))' % V)


def expr(t, path):
    kind, role, ch = t
    role = role.split("@")[0]  # "@while"/"@for"/"@if": the statement position hosting the expression (see gen)
    V = repr(path)
    inner = ""
    if ch:
        inner = expr(ch[0], path + "." + ch[0][0] + "0")
    if kind == "L":
        parts = []
        if role in ("read", "param", "default"):
            parts.append("show(x)")
        if role == "walrus":
            parts.append("(x := %s)" % V)
            parts.append("show(x)")
        if role == "compwalrus":
            # a walrus in a comprehension inside the lambda binds a local of the lambda
            parts.append("[(x := %s) for q_ in [0]]" % V)
            parts.append("show(x)")
        if inner:
            parts.append(inner)
        body = "[" + ", ".join(parts) + "]"
        if role == "param":
            return '(lambda x: %s)(%s+"arg")' % (body, V)
        if role == "default":
            return "(lambda q=x: [show(q), %s])()" % body
        return "(lambda: %s)()" % body
    parts = []
    if role in ("read", "target"):
        parts.append("show(x)")
    if role == "walrus":
        parts.append("(x := %s)" % V)
    if inner:
        parts.append(inner)
    body = "[" + ", ".join(parts) + "]"
    o, c = ("[", "]") if kind == "G" else ("list(", ")")
    if role == "target":
        return '%s%s for x in [%s+"t"]%s' % (o, body, V, c)
    if role == "startarget":  # the tracked name is the starred element of the comprehension target
        return '%s[show(x)%s] for q_, *x in [(0, %s+"t")]%s' % (o, (", " + inner) if inner else "", V, c)
    if role == "tupletarget":  # ... an element of a nested tuple target
        return '%s[show(x)%s] for q_, (x, z_) in [(0, (%s+"t", 1))]%s' % (o, (", " + inner) if inner else "", V, c)
    if role == "readiter":
        return "%s%s for q in [show(x)]%s" % (o, body, c)
    if role == "readcond":
        return "%s%s for q in [0] if show(x)%s" % (o, body, c)
    return "%s%s for q in [0]%s" % (o, body, c)


def render(t, ballast=False):
    out = []
    BALLAST[0] = ballast
    try:
        gen(t, "M", 0, out)
    finally:
        BALLAST[0] = False
    return "\n".join(out) + "\n"


def show(v):
    if isinstance(v, str):
        return v
    if isinstance(v, type):
        return "cls:" + str(getattr(v, "tag", "?"))
    if isinstance(v, list):
        return "list:" + ",".join(map(str, v))
    if callable(v):
        try:
            return "fn:" + str(v())
        except TypeError:
            return "builtin"
    return "mod:" + getattr(v, "__name__", repr(v))


def env():
    return {"log": print, "show": show}

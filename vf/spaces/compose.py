"""C01's program space: every derivation of a statement grammar over feature atoms and compound
frames, up to a bound on the number of statement nodes. Keys are derivation s-expressions."""

PRE = "a = 1\nb = 2\nlst = [0, 1]\nd = {'k': 1}\nclass O: pass\nobj = O()\nobj.v = 1\n"
POST = "\nprint(a, b, lst, d, obj.v)\n"

# tag -> source (may span lines); every atom only touches the tracked environment
SIMPLE = [
    ("asg", "a = a + 1"),
    ("aug", "a += 2"),
    ("swap", "a, b = b, a"),
    ("star", "a, *b = [a, 1, 2]"),
    ("nest", "(a, b), c = (b, a), 3"),
    ("dset", "d['k'] = a"),
    ("daug", "d['k'] += 1"),
    ("oset", "obj.v = a"),
    ("oaug", "obj.v -= 1"),
    ("sset", "lst[0:1] = [a]"),
    ("saug", "lst[1:] *= 2"),
    ("laug", "lst += [a]"),
    ("call", "lst.append(a)"),
    ("print", "print(a, b)"),
    ("lam", "a = (lambda q, r=a: q + r)(a)"),
    ("lcomp", "b = [t * 2 for t in range(a % 3 + 1)]"),
    ("dcomp", "b = {t: a for t in 'xy' if t}"),
    ("gen", "a = sum(t + a for t in (1, 2))"),
    ("walrus", "a = (w := a + 1) + w"),
    ("fstr", "s = f'{a!r:>4}|{b}'"),
    ("imp", "import math\na = math.floor(a + 0.5)"),
    ("from", "from os.path import join as J\ns = J('x', str(a))"),
    ("cond", "a = a if a % 2 else -a"),
    ("pass", "pass"),
    ("ann", "n: int = a"),
    ("chain", "a = b = a + 1"),
    ("cmp", "b = 0 < a <= 3 or not a"),
]
INTERRUPTS = {"loop": [("brk", "break"), ("cont", "continue")], "func": [("ret", "return a")]}

# frame: (tag, template, what the body hole opens, what the else hole is)
FRAMES = [
    ("if", "if a % 2:\n{B}", None),
    ("ifelse", "if a % 2:\n{B}\nelse:\n{E}", None),
    ("elif", "if a > 99:\n    pass\nelif a % 2:\n{B}\nelse:\n{E}", None),
    ("while", "i = 0\nwhile i < 2:\n    i += 1\n{B}", "loop"),
    ("whileelse", "i = 0\nwhile i < 2:\n    i += 1\n{B}\nelse:\n{E}", "loop"),
    ("for", "for j in range(2):\n{B}", "loop"),
    ("forelse", "for j, k in [(0, 1), (2, 3)]:\n{B}\nelse:\n{E}", "loop"),
    ("loopif", "for j in range(3):\n    if j == 1:\n{BB}\n    else:\n{EE}", "loopboth"),
    ("classcond", "class C:\n    if a > 99:\n        a = 0\n    for b in []:\n        pass\n{B}\n    r = (a, b)\na = C.r[0]", "class"),
    ("def", "def f(p, q=a, *r, s=1, **t):\n    a = p + q + s\n{B}\n    return a\na = f(a)", "func"),
    ("defglobal", "def f():\n    global a\n{B}\nf()", "funcg"),
    ("closure", "def f(a):\n    def g():\n        nonlocal a\n{BB}\n        return a\n    return g() + a\na = f(a)", "func2"),
    ("class", "class C:\n    a = a + 10\n{B}\n    r = a\na = C.r", "class"),
    ("method", "class B0:\n    def m(self, a):\n        return a + 1\nclass C(B0):\n    def m(self, a):\n{BB}\n        return super().m(a)\na = C().m(a)", "func2"),
    ("deco", "def dec(fn):\n    return lambda *x: fn(*x) + 1\n@dec\ndef f(a):\n{B}\n    return a\na = f(a)", "func"),
]


def ind(s, n):
    return "\n".join("    " * n + l for l in s.split("\n"))


def stmts(size, ctx):
    """yield (key, source block) with exactly `size` statement nodes; ctx subset of {'loop','func'}"""
    if size == 1:
        for s in SIMPLE:
            yield s
        if "loop" in ctx:
            for s in INTERRUPTS["loop"]:
                yield s
        if "func" in ctx:
            for s in INTERRUPTS["func"]:
                yield s
        return
    for name, tpl, opens in FRAMES:
        has_else = "{E}" in tpl or "{EE}" in tpl
        rest = size - 1
        if opens == "loop":
            bctx, ectx = ctx | {"loop"}, ctx
        elif opens == "loopboth":
            # both holes are inside the frame's own loop
            bctx, ectx = ctx | {"loop"}, ctx | {"loop"}
        elif opens in ("func", "funcg", "func2"):
            bctx, ectx = frozenset({"func"}), ctx
        elif opens == "class":
            bctx, ectx = frozenset(), ctx
        else:
            bctx, ectx = ctx, ctx
        for nb in range(1, rest + 1):
            ne = rest - nb
            if (ne > 0) != has_else:
                continue
            for bk, bsrc in blocks(nb, bctx):
                body = ind(bsrc, 2 if "{BB}" in tpl else 1)
                if has_else:
                    for ek, esrc in blocks(ne, ectx):
                        yield "%s[%s|%s]" % (name, bk, ek), tpl.replace("{B}", body).replace("{BB}", body).replace("{E}", ind(esrc, 1)).replace("{EE}", ind(esrc, 2))
                else:
                    yield "%s[%s]" % (name, bk), tpl.replace("{B}", body).replace("{BB}", body)


def blocks(size, ctx, maxlen=2):
    def rec(rem, n):
        if rem == 0:
            yield [], []
            return
        if n == 0:
            return
        for s1 in range(1, rem + 1):
            for k, s in stmts(s1, ctx):
                if k in ("brk", "cont", "ret"):
                    if rem - s1 == 0:
                        yield [k], [s]
                    continue
                for tk, ts in rec(rem - s1, n - 1):
                    yield [k] + tk, [s] + ts

    for ks, ss in rec(size, maxlen):
        yield " ".join(ks), "\n".join(ss)


def programs(size):
    """all programs with exactly `size` statement nodes"""
    for k, body in blocks(size, frozenset(), maxlen=3):
        yield "c01:" + k, PRE + body + POST

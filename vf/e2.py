"""E2: stateless schedule explorer with replay-from-prefix.

An *execution* consumes environment answers through Env.choose(n). Past the recorded prefix
the default answer 0 is taken. explore() enumerates every complete answer list of the
reference run (optionally bounded by the number of non-default answers = deviations) and
hands each to `on_schedule`, which replays it on the implementation side.
"""
import collections


class Horizon(BaseException):
    """Probe budget exhausted: the execution is outside the explored horizon."""


class Divergence(BaseException):
    """A replay asked for a choice the recorded schedule does not have (or with another arity)."""


class Env:
    def __init__(self, choices, budget=400, strict=False, arities=None):
        self.choices = list(choices)
        self.pos = 0
        self.points = []  # arity at each choice point
        self.trace = []
        self.steps = 0
        self.budget = budget
        self.strict = strict  # replay mode: never extend the schedule
        self.arities = arities

    def tick(self):
        self.steps += 1
        if self.steps > self.budget:
            raise Horizon()

    def choose(self, n, tag=None):
        self.tick()
        if self.pos < len(self.choices):
            c = self.choices[self.pos]
            if c >= n:
                raise Divergence("choice %d out of range %d at point %d" % (c, n, self.pos))
            if self.arities is not None and self.arities[self.pos] != n:
                raise Divergence("arity %d vs recorded %d at point %d" % (n, self.arities[self.pos], self.pos))
        else:
            if self.strict:
                raise Divergence("schedule exhausted at point %d (%r)" % (self.pos, tag))
            c = 0
            self.choices.append(c)
        self.points.append(n)
        self.pos += 1
        return c


def explore(run_ref, on_schedule, max_dev=None, max_exec=None):
    """run_ref(prefix) -> (status, env). Calls on_schedule(status, env, full) for each complete
    schedule. Returns (choice_nodes, transitions, executions, capped)."""
    nodes = trans = execs = 0
    capped = False
    stack = [[]]
    while stack:
        prefix = stack.pop()
        status, env = run_ref(prefix)
        execs += 1
        full = env.choices[: env.pos]
        if full[: len(prefix)] != prefix:
            raise RuntimeError("harness nondeterminism: prefix %r not reproduced (%r)" % (prefix, full))
        devs = sum(1 for c in prefix if c)
        for i in range(len(prefix), len(full)):
            nodes += 1
            trans += 1  # the default answer taken here
            if max_dev is not None and devs + 1 > max_dev:
                continue
            for alt in range(1, env.points[i]):
                trans += 1
                stack.append(full[:i] + [alt])
        on_schedule(status, env, full)
        if max_exec is not None and execs >= max_exec and stack:
            capped = True
            break
    return nodes, trans, execs, capped

"""./check <PROPERTY> [--tier quick|thorough] [--replay FILE] [--collect FILE]"""
import argparse
import importlib
import json
import os
import sys
import traceback

from . import core


def main(argv=None):
    ap = argparse.ArgumentParser(prog="check")
    ap.add_argument("pid")
    ap.add_argument("--tier", default=os.environ.get("VERIF_TIER") or "quick", choices=["quick", "thorough"])
    ap.add_argument("--replay")
    ap.add_argument("--collect", help="tool-only: dump every failing execution to this file")
    a = ap.parse_args(argv)
    pid = a.pid.upper()
    try:
        seed = int(os.environ.get("VERIF_SEED", "0") or 0)
    except ValueError:
        seed = 0
    try:
        if not core.WALL_BUDGET:
            core.WALL_BUDGET = 1500.0 if a.tier == "quick" else 6 * 3600.0
        core.ol()  # bind `oneliner` to the tree under test before anything else can import it
        mod = importlib.import_module("vf.checks." + pid.lower())
        if a.replay:
            return mod.replay(json.load(open(a.replay, encoding="utf8")))
        return mod.main(a.tier, seed, a.collect)
    except core.HarnessError as e:
        print("HARNESS-ERROR property=%s: %s" % (pid, e))
        return 2
    except Exception:
        print("HARNESS-ERROR property=%s:\n%s" % (pid, traceback.format_exc()))
        return 2


if __name__ == "__main__":
    sys.exit(main())

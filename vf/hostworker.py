"""Batch worker run under any CPython 3.8+ (stdlib only, 3.8 syntax).

Reads one JSON document from stdin: {"op": ..., "repo": ..., "jobs": [...]}, writes one JSON document.
  op=convert : jobs = [[key, src, [[ci, [u, w, s]], ...]]]   -> [[key, [[ci, "ok", text] | [ci, "raised", msg]]]]
  op=check   : jobs = [[key, src, envname, [[label, text], ...]]]
               -> [[key, ref_status, [[label, diff-or-null], ...]]]   (ref_status: "ok" | "skip:<why>")
"""
import json
import os
import sys

HERE = os.path.dirname(os.path.dirname(os.path.abspath(__file__)))
if HERE not in sys.path:
    sys.path.insert(0, HERE)


def env_factory(name):
    if not name:
        return None
    if name == "scopes":
        from vf.spaces import scopes

        return scopes.env
    if name == "c12":
        from vf.checks import c12

        return c12.env
    raise ValueError(name)


def main():
    doc = json.load(sys.stdin)
    out = []
    if doc["op"] == "convert":
        sys.path.insert(0, doc["repo"])
        sys.dont_write_bytecode = True
        import random

        import oneliner
        import oneliner.config

        random.seed(doc.get("seed", 0))
        for key, src, cfgs in doc["jobs"]:
            rs = []
            for ci, (u, w, s) in cfgs:
                try:
                    c = oneliner.config.Configs()
                    c.unparser, c.expr_wrapper, c.if_style = u, w, s
                    rs.append([ci, "ok", oneliner.convert_code_string(src, configs=c)])
                except BaseException as e:
                    if isinstance(e, KeyboardInterrupt):
                        raise
                    rs.append([ci, "raised", "%s: %s" % (type(e).__name__, str(e)[:120])])
            out.append([key, rs])
    elif doc["op"] == "check":
        from vf import observe

        for key, src, envname, texts in doc["jobs"]:
            env = env_factory(envname)
            try:
                code = compile(src, "<src>", "exec")
            except (SyntaxError, ValueError) as e:
                out.append([key, "skip:source does not compile on this runtime", []])
                continue
            ref, _ = observe.run(code, "exec", env() if env else None)
            if ref.outcome[0] != "ok":
                out.append([key, "skip:source outcome %s" % (ref.outcome[:2],), []])
                continue
            rs = []
            for label, text in texts:
                try:
                    co = compile(text, "<out>", "eval")
                except (SyntaxError, ValueError) as e:
                    rs.append([label, "does not compile on this runtime: %s" % str(e)[:100]])
                    continue
                got, _ = observe.run(co, "eval", env() if env else None)
                if got.outcome[0] == "timeout":
                    got, _ = observe.run(co, "eval", env() if env else None, limit=50.0)
                rs.append([label, observe.compare(ref, got)])
            out.append([key, "ok", rs])
    elif doc["op"] == "normalise":
        # jobs = [[key, text]] -> [[key, ast.unparse(ast.parse(text)) or null]]   (needs 3.9+)
        import ast

        for key, text in doc["jobs"]:
            try:
                out.append([key, ast.unparse(ast.parse(text, mode="eval"))])
            except Exception:
                out.append([key, None])
    elif doc["op"] == "parsecmp":
        # jobs = [[key, [witness texts], candidate]] -> [[key, "skip" | null | reason]]
        import ast
        import warnings

        from vf import exprspace as X

        warnings.simplefilter("ignore")
        for key, witnesses, cand in doc["jobs"]:
            want = None
            for w in witnesses:
                if w is None:
                    continue
                try:
                    want = X.ndump(ast.parse(w, mode="eval").body)
                    break
                except (SyntaxError, ValueError):
                    continue
                except RecursionError:
                    continue
            if want is None:
                out.append([key, "skip"])
                continue
            try:
                got = X.ndump(ast.parse(cand, mode="eval").body)
            except (SyntaxError, ValueError) as e:
                out.append([key, "text of the oneliner unparser does not parse on this runtime: %s" % str(e)[:80]])
                continue
            out.append([key, None if got == want else "text of the oneliner unparser parses to a different tree on this runtime"])
    json.dump(out, sys.stdout)


if __name__ == "__main__":
    main()

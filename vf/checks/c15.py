"""C15 - the generated expression runs identically on every Python 3.8+ runtime (E1, exhaustive).

Space   : programs whose own syntax python3.8 compiles (asked of 3.8 itself), drawn completely from:
          the C01 space (<= 2 nodes quick / <= 3 thorough), the C06 space (<= 2 / <= 3 scopes), the
          C12 single-member skeletons (module placement), the C13 slice family, and f-string /
          literal shapes of C04 embedded in print().
Matrix  : (program x 8 option combinations x host in {3.12} quick / {3.10, 3.11, 3.12, 3.13} thorough)
          -> distinct output texts -> each evaluated on every runtime in {3.8 .. 3.13} by a batch
          worker running under that interpreter.
Oracle  : on runtime r: the text compiles in eval mode and the observation of eval(text) equals the
          observation of exec(source) ON THE SAME r (C01's oracle, computed inside r).
"""
import itertools
import json
import re
import os
import subprocess
import sys
import time
from concurrent.futures import ThreadPoolExecutor

from .. import core
from ..spaces import compose, scopes
from . import c04, c12, c13

PID = "C15"
LEVEL = "exploration"
RUNTIMES = ["py38", "py39", "py310", "py311", "py312", "py313"]
WORKER = os.path.join(core.VERIF, "vf", "hostworker.py")


def fstring_programs():
    import ast

    pre = "x = 3.14159\nw = 8\np = 2\nv = 'val'\nk = 'k'\nit = [1, 2]\nq = 1\ny = 5\n"
    seen = set()
    for key, e in c04.fshapes(1):
        if "yield" in key or "startuple" in key or re.search(r":lambda(!|:)", key):
            continue  # (a bare lambda value prints an address)
        try:
            t = ast.unparse(e)
        except Exception:
            continue
        if t in seen:
            continue
        seen.add(t)
        yield "c15:" + key, pre + "try:\n    pass\nexcept Exception:\n    pass\n" * 0 + "r = %s\nprint(r)\n" % t
    for s in c04.sigma_strings(2, 1):
        if "\ud800" in s:
            continue
        for ctx in ("plain", "field", "dictkey", "nested-fstr", "fliteral"):
            build, _ = c04.STR_CONTEXTS[ctx]
            try:
                t = ast.unparse(build(s))
                compile(t, "<t>", "eval")
            except Exception:
                continue
            yield "c15:str:%s:%s" % (ctx, ascii(s)), "x = 7\nf = str\nr = %s\nprint(ascii(r))\n" % t


def programs(tier):
    mx = 2 if tier == "quick" else 3
    for size in range(1, mx + 1):
        for k, src in compose.programs(size):
            yield "c15:" + k, src, None
    for n in range(1, mx + 1):
        for shape in scopes.trees(n):
            for t in scopes.assign_roles(shape):
                yield "c15:c06:" + scopes.key(t), scopes.render(t), "scopes"
    for k, src in c12.progs(1):
        if "P[module]" in k or tier == "thorough":
            yield "c15:" + k, src, "c12"
    for k, src in c13.slice_programs():
        yield "c15:" + k, src, None
    for k, src in fstring_programs():
        yield k, src, None


def call_worker(host, doc):
    interp = core.interpreter(host)
    env = dict(os.environ, PYTHONDONTWRITEBYTECODE="1", PYTHONHASHSEED="0", PYTHONPATH=core.VERIF)
    p = subprocess.run([interp, WORKER], input=json.dumps(doc), capture_output=True, text=True, env=env, timeout=3600)
    if p.returncode != 0:
        raise core.HarnessError("batch worker under %s failed: %s" % (host, p.stderr[-500:]))
    return json.loads(p.stdout)


def main(tier, seed, collect=None):
    t0 = time.time()
    total = core.ShardResult()
    total.MAX_EXTRA = 10**9
    avail = [r for r in RUNTIMES if core.interpreter(r)]
    missing = [r for r in RUNTIMES if r not in avail]
    for m in missing:
        total.notes["runtime %s is not installed: reduced coverage" % m] += 1
    hosts = ["py312"] if tier == "quick" else [h for h in ("py310", "py311", "py312", "py313") if h in avail]
    progs = list(programs(tier))
    total.c["programs_generated"] = len(progs)
    chunks = list(core.chunked(progs, max(50, len(progs) // 48)))
    cfgs = [[ci, list(core.CONFIGS[ci])] for ci in core.ALL_CFG]

    # 1. keep the programs python3.8 itself compiles (and which run there)
    pool = ThreadPoolExecutor(core.NPROC)
    lo = avail[0]
    ok38 = set()
    for res in pool.map(lambda ch: call_worker(lo, {"op": "check", "repo": core.REPO, "jobs": [[k, s, e, []] for k, s, e in ch]}), chunks):
        for key, st, _ in res:
            if st == "ok":
                ok38.add(key)
            else:
                total.c["skipped:" + st.split(" (")[0][:60]] += 1
    progs = [p for p in progs if p[0] in ok38]
    total.c["programs_in_scope"] = len(progs)
    chunks = list(core.chunked(progs, max(40, len(progs) // 64)))

    # 2. convert on every host
    texts = {}  # key -> {normalised text: (text, [labels])}
    def conv(args):
        h, ch = args
        return h, call_worker(h, {"op": "convert", "repo": core.REPO, "seed": seed, "jobs": [[k, s, cfgs] for k, s, e in ch]})
    for h, res in pool.map(conv, [(h, ch) for h in hosts for ch in chunks]):
        for key, rs in res:
            for ci, st, text in rs:
                total.c["conversions"] += 1
                if st != "ok":
                    # conversion refusing a supported program is C01's business; here it only removes the text
                    total.c["conversions_raised"] += 1
                    continue
                d = texts.setdefault(key, {})
                ent = d.setdefault(core.norm_ol(text), (text, []))
                ent[1].append("%s/%d" % (h, ci))
    total.c["distinct_output_texts"] = sum(len(d) for d in texts.values())

    # 3. evaluate every distinct text on every runtime
    src_of = {k: (s, e) for k, s, e in progs}
    def chk(args):
        r, keys = args
        jobs = [[k, src_of[k][0], src_of[k][1], [[n, t] for n, (t, labels) in enumerate(texts[k].values())]] for k in keys if k in texts]
        return r, call_worker(r, {"op": "check", "repo": core.REPO, "jobs": jobs})
    keychunks = list(core.chunked([k for k, _, _ in progs], max(40, len(progs) // 48)))
    nsample = 0
    for r, res in pool.map(chk, [(r, kc) for r in avail for kc in keychunks]):
        for key, st, rs in res:
            if st != "ok":
                total.c["runtime_skips:" + r] += 1
                continue
            ents = list(texts[key].values())
            for n, diff in rs:
                total.c["evaluations"] += 1
                if diff:
                    text, labels = ents[n]
                    for lab in labels:
                        h, ci = lab.split("/")
                        klass = "malformed" if diff.startswith("does not compile") else "misbehaves"
                        total.fail(key, int(ci), klass, "runtime %s: %s" % (r, diff), {"source": src_of[key][0], "output": text[:2000], "runtime": r, "host": h}, host="conv-%s>run-%s" % (h, r))
            if nsample < 4 and key.startswith("c15:fshape"):
                nsample += 1
                total.sample({"key": key, "runtime": r, "source": src_of[key][0], "texts": len(ents)})
    pool.shutdown()
    c = total.c
    cov = {
        "evaluations": c["evaluations"],
        "distinct_nontrivial": c["programs_in_scope"],
        "rule": "every program of the listed spaces that python3.8 compiles and runs is a case; every distinct output text (8 configurations x hosts, "
        "deduplicated up to __ol_ renaming) is evaluated on every runtime",
        "exhaustive": True,
        "hosts": hosts,
        "runtimes": avail,
        "programs_generated": c["programs_generated"],
        "distinct_output_texts": c["distinct_output_texts"],
        "states": c["programs_in_scope"],
        "transitions": c["conversions"],
        "traces_validated_against_impl": c["evaluations"],
    }
    assumptions = [
        "the interpreters under /root/.pyenv/versions are the runtimes; 3.14 is not installed (stated limit)",
        "each runtime computes its own reference observation of the source, so version differences of Python itself never count",
    ]
    return core.finish(PID, tier, seed, LEVEL, total, cov, assumptions, t0, collect)


def replay(payload):
    ex = payload.get("extra") or {}
    if not ex.get("source") or not ex.get("runtime"):
        print("replay file lacks source/runtime")
        return 2
    key = payload["key"]
    envname = "scopes" if key.startswith("c15:c06:") else ("c12" if key.startswith("c15:c12:") else None)
    h = ex.get("host", "py312")
    ci = payload["cfg"]
    res = call_worker(h, {"op": "convert", "repo": core.REPO, "jobs": [[key, ex["source"], [[ci, list(core.CONFIGS[ci])]]]]})
    st, text = res[0][1][0][1], res[0][1][0][2]
    if st != "ok":
        print("conversion now raises:", text)
        return 0
    r = call_worker(ex["runtime"], {"op": "check", "repo": core.REPO, "jobs": [[key, ex["source"], envname, [[0, text]]]]})
    print(key, ex["runtime"], r[0][1], r[0][2])
    return 1 if (r[0][2] and r[0][2][0][1]) else 0

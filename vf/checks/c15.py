"""C15 - the generated expression runs identically on every Python 3.8+ runtime (E1, exhaustive).

Space   : programs whose own syntax python3.8 compiles (asked of 3.8 itself), drawn completely from:
          the C01 space (<= 2 nodes quick / <= 3 thorough), the C06 space (<= 2 / <= 3 scopes), the
          C12 single-member skeletons (module placement), the C13 slice family, and f-string /
          literal shapes of C04 embedded in print().
Matrix  : (program x 8 option combinations x host in {3.12} quick / {3.10, 3.11, 3.12, 3.13} thorough)
          -> distinct output texts -> each evaluated on every runtime in {3.8 .. 3.13} by a batch
          worker running under that interpreter.
Syntax  : additionally every in-scope expression tree of C03's space (depth <= 1 in full, depth 2 over
          the hazard slots (quick) / in full (thorough), depth 3 over outer x hazard/all x inner sets, all
          shape families) is unparsed by the
          oneliner unparser on this host and must parse, to the same tree, on every runtime on which
          the tree is denotable (witness: ast.unparse text of the host or python3.9's re-rendering).
Oracle  : on runtime r: the text compiles in eval mode and the observation of eval(text) equals the
          observation of exec(source) ON THE SAME r (C01's oracle, computed inside r).
"""
import itertools
import json
import re
import os
import subprocess
import sys
import time
from concurrent.futures import ThreadPoolExecutor

from .. import core
from ..spaces import compose, scopes
from . import c04, c12, c13

PID = "C15"
LEVEL = "exploration"
RUNTIMES = ["py38", "py39", "py310", "py311", "py312", "py313"]
WORKER = os.path.join(core.VERIF, "vf", "hostworker.py")


def fstring_programs():
    import ast

    pre = "x = 3.14159\nw = 8\np = 2\nv = 'val'\nk = 'k'\nit = [1, 2]\nq = 1\ny = 5\n"
    seen = set()
    for key, e in c04.fshapes(1):
        if "yield" in key or "startuple" in key or re.search(r":lambda(!|:)", key):
            continue  # (a bare lambda value prints an address)
        try:
            t = ast.unparse(e)
        except Exception:
            continue
        if t in seen:
            continue
        seen.add(t)
        yield "c15:" + key, pre + "try:\n    pass\nexcept Exception:\n    pass\n" * 0 + "r = %s\nprint(r)\n" % t
    for s in c04.sigma_strings(2, 1):
        if "\ud800" in s:
            continue
        for ctx in ("plain", "field", "dictkey", "nested-fstr", "fliteral"):
            build, _ = c04.STR_CONTEXTS[ctx]
            try:
                t = ast.unparse(build(s))
                compile(t, "<t>", "eval")
            except Exception:
                continue
            yield "c15:str:%s:%s" % (ctx, ascii(s)), "x = 7\nf = str\nr = %s\nprint(ascii(r))\n" % t


SYNTAX_SENSITIVE = {
    "star-index-load": "t = {(1, 2): 'v'}\npos = (1,)\nprint(t[(*pos, 2)])\n",
    "star-index-store": "t = {}\npos = (1,)\nt[(*pos, 2)] = 5\nprint(t)\n",
    "star-index-aug": "t = {(1, 2): 1}\npos = (1,)\nt[(*pos, 2)] += 5\nprint(t)\n",
    "star-index-in-func": "def f(t, pos):\n    def g():\n        return pos\n    t[(*pos, 0)] = g()\n    return t[(*pos, 0)]\nprint(f({}, (1,)))\n",
    "star-index-only": "t = {(1, 2): 'v'}\npos = (1, 2)\nprint(t[(*pos,)])\n",
    "walrus-setcomp-elt": "xs = [1, 2]\nr = {(y := x * 2) for x in xs}\nprint(sorted(r), y)\n",
    "walrus-genexp-solearg": "ws = ['a', 'bb']\nprint(any((hit := w) for w in ws), hit)\n",
    "walrus-listcomp-elt": "r = [(y := x) for x in range(3)]\nprint(r, y)\n",
    "walrus-dictcomp": "r = {(k := x): (v := x * 2) for x in range(2)}\nprint(r, k, v)\n",
    "walrus-index": "a = [1, 2, 3]\nprint(a[(i := 1)], i, a[(j := 0):(k := 2)], j, k)\n",
    "walrus-in-call-kw": "def f(**k):\n    return k\nprint(f(a=(z := 3)), z)\n",
    "walrus-in-fstring": "print(f'{(q := 5)} {q!r:>3}')\n",
    "walrus-lambda-default": "f = lambda a=(d := 4): a + d\nprint(f(), d)\n",
    "walrus-while": "it = iter([2, 1, 0, 9])\nwhile (n := next(it)):\n    print(n)\nprint(n)\n",
    "posonly": "def f(a, b=2, /, c=3, *, d=4):\n    return a, b, c, d\nprint(f(1), f(1, 5, c=6, d=7))\n",
    "posonly-lambda": "f = lambda a, /, b=1: (a, b)\nprint(f(0), f(0, b=2))\n",
    "fstring-eq": "x = 3\nprint(f'{x=} {x = :>4} {x + 1 = }')\n",
    "fstring-quotes-in-field": "d = {'k': 1}\nprint(f\"{d['k']} {'lit'} {d['k']:>{d['k'] + 3}}\")\n",
    "fstring-nested-member": "class K:\n    v = 'cv'\n    s = f'{v}|{v!r}'\nprint(K.s)\n",
    "fstring-shared-name": "def f(a):\n    def g():\n        return a\n    return f'{a}:{g()}:{a!r:>5}'\nprint(f('q'))\n",
    "return-star-tuple": "def f(a):\n    return (*a, 1)\nprint(f([0]))\n",
    "yieldless-star-assign": "a = [1, 2]\nb = (*a, 3)\nc = [*a, *b]\nd = {**{'x': 1}, 'y': 2}\nprint(b, c, d)\n",
    "for-star-iter": "a = [1]\nfor x in (*a, 2):\n    print(x)\n",
    "subscript-tuple-slices": "class R:\n    def __getitem__(s, k):\n        return k\nr = R()\nprint(r[1:2, ::3], r[1, 2], r[(1, 2)], r[1:2,], r[...], r[..., 0])\n",
    "dict-set-in-fstring": "print(f'{ {1: 2}[1] } { {1, 2} } { {k: k for k in (1,)} }')\n",
    "lambda-in-fstring": "print(f'{(lambda: 3)()} {(lambda a=1: a)()}')\n",
    "conditional-in-fstring": "a = 1\nprint(f'{a if a else 0} {a!s:^5} {3 if a else 4:>{a + 2}}')\n",
    "neg-index": "a = [1, 2, 3]\nprint(a[-1], a[-2:], a[::-1], (-1) ** 2, -1 ** 2, 2 ** -1)\n",
    "big-literals": "print(10 ** 20, 1e308 * 10, -0.0, 1j * 1j, 0.1 + 0.2)\n",
    "bytes-and-str-escapes": "print(b'\\x00\\xff\\n', 'q\\n\\t\\\\', '\\u20ac\\xe9', len('\\U0001F600'))\n",
    "decorator-simple": "def d(f):\n    return f\n@d\ndef g():\n    return 1\n@d\nclass K:\n    pass\nprint(g(), K.__name__ == 'K')\n",
    "class-kw-meta": "class M(type):\n    def __new__(m, n, b, d, **k):\n        return super().__new__(m, n, b, d)\n    def __init__(c, n, b, d, **k):\n        super().__init__(n, b, d)\nclass K(metaclass=M, flag=1):\n    pass\nprint(type(K).__name__)\n",
    "global-nonlocal": "g = 0\ndef f():\n    global g\n    x = 1\n    def h():\n        nonlocal x\n        x += 1\n        return x\n    g = h()\n    return x\nprint(f(), g)\n",
    "imports": "import os.path\nimport os.path as p\nfrom os import sep as s\nprint(os.path.sep == p.sep == s)\n",
    "loops-break-else": "for i in range(3):\n    for j in range(3):\n        if j == 1:\n            break\n    else:\n        continue\n    if i == 1:\n        break\nelse:\n    print('no')\nprint(i, j)\n",
    "unpack-nested-star": "(a, *b), c = [1, 2, 3], 4\nfor x, (y, *z) in [(1, (2, 3, 4))]:\n    pass\nprint(a, b, c, x, y, z)\n",
    "fstring-in-kwarg": "rows = [{'name': 'b'}, {'name': 'a'}]\nprint(sorted(rows, key=lambda p: f\"{p['name']}\"))\n",
    "fstring-in-comp-clause": "d = {'k': 'v'}\nprint([c for c in f\"{d['k']}\" if c in f\"{d['k']}!\"])\n",
    "fstring-in-default": "d = {'k': 'v'}\ndef f(a=f\"{d['k']}\", *, b=f\"{d['k']}2\"):\n    return a, b\nprint(f())\n",
    "fstring-in-for-iter": "d = {'k': 'xy'}\nfor c in f\"{d['k']}\":\n    print(c)\n",
    "fstring-in-class-kw-and-deco": "d = {'k': 'v'}\ndef deco(tag):\n    return lambda c: c\n@deco(f\"{d['k']}\")\nclass K:\n    t = f\"{d['k']}\"\nprint(K.t)\n",
    "fstring-non-ascii-in-field": "d = {'\u00e9': 1, '\u20ac': 2}\nprint(f\"{d['\u00e9']} {d['\u20ac']} {'\u00fc'}\")\n",
    "fstring-bytes-in-field": "data = b'PKzip'\nprint(f'zip archive: {data.startswith(b\"PK\")} {b\"x\" in data}')\n",
    "walrus-set-and-index": "table = [10, 20, 30]\nn = 0\nprint(table[(n := n + 1)], {(y := 3), y ** 2}, [(a := 1), (b := 2)], n, y, a, b)\n",
    "explicit-staticmethod-new": "class K:\n    @staticmethod\n    def __new__(cls, *a):\n        return object.__new__(cls)\n    @classmethod\n    def __init_subclass__(cls, **kw):\n        cls.seen = True\n    @classmethod\n    def __class_getitem__(cls, item):\n        return item\nclass L(K):\n    pass\nprint(type(K()).__name__, L.seen, K[3])\n",
    "super-in-loop": "class B:\n    def m(self):\n        return 'B'\nclass K(B):\n    def m(self):\n        r = []\n        for i in range(2):\n            r.append(super().m())\n        n = 0\n        while n < 1:\n            n += 1\n            r.append(super().m() + 'w')\n        return r\nprint(K().m())\n",
    "super-in-comprehension-free": "class B:\n    def m(self):\n        return 'B'\nclass K(B):\n    def m(self):\n        if True:\n            return super().m() + '!'\nprint(K().m())\n",
    "aug-all": "x = 7\nx += 1\nx -= 2\nx *= 3\nx //= 2\nx %= 5\nx **= 2\nx <<= 1\nx >>= 1\nx |= 8\nx &= 12\nx ^= 5\nx /= 2\nprint(x)\nimport operator\n",
}


def programs(tier):
    for k, src in SYNTAX_SENSITIVE.items():
        yield "c15:syntax:" + k, src, None
    mx = 2 if tier == "quick" else 3
    for size in range(1, mx + 1):
        for k, src in compose.programs(size):
            yield "c15:" + k, src, None
    for n in range(1, mx + 1):
        for shape in scopes.trees(n):
            for t in scopes.assign_roles(shape):
                yield "c15:c06:" + scopes.key(t), scopes.render(t), "scopes"
    for k, src in c12.progs(1):
        if "P[module]" in k or tier == "thorough":
            yield "c15:" + k, src, "c12"
    for k, src in c13.slice_programs():
        yield "c15:" + k, src, None
    for k, src in fstring_programs():
        yield k, src, None


def expr_cases(tier):
    """(key, ast.unparse text on this host, expr_unparse text) for the in-scope trees of C03's space"""
    import ast

    from .. import exprspace as X
    from . import c03

    slots, leaves, _ = c03.space()
    up = c03.unparser()
    byname, lv = dict(slots), dict(leaves)
    names = [s[0] for s in slots]
    lnames = [l[0] for l in leaves]
    hz = [h for h in c03.HAZARD if h in byname]

    def emit(key, e):
        want = X.ndump(e)
        if not X.in_scope(e, want):
            return None
        try:
            return key, ast.unparse(e), up(e)
        except Exception:
            return None  # C03 reports unparser failures

    combos = [(o, l) for o in names for l in lnames]
    d2 = [(o, i, l) for o in (hz if tier == "quick" else names) for i in (hz if tier == "quick" else names) for l in (c03.LEAF_REPS if tier == "quick" else lnames)]
    for o, l in combos:
        r = emit("c15:expr:%s>%s" % (o, l), byname[o](lv[l]()))
        if r:
            yield r
    for o, i, l in d2:
        r = emit("c15:expr:%s>%s>%s" % (o, i, l), byname[o](byname[i](lv[l]())))
        if r:
            yield r
    outer3 = ["Call.onlyarg", "Call.arg0of2", "Call.kwvalue", "Subscript.slice", "FormattedValue.value", "Lambda.body", "Tuple.elt1", "Slice.lower", "Dict.value", "IfExp.test"]
    inner3 = ["NamedExpr.value", "Lambda.body", "Yield.value", "IfExp.body", "Call.star", "GeneratorExp.elt", "Tuple.elt", "UnaryOp.Not"]
    for o in outer3:
        for m in (hz if tier == "quick" else names):
            for i in inner3:
                for l in ("Name", "Int", "Str"):
                    r = emit("c15:expr:%s>%s>%s>%s" % (o, m, i, l), byname[o](byname[m](byname[i](lv[l]()))))
                    if r:
                        yield r
    for fam in c03.SHAPES:
        for k, e in c03.shapes(fam):
            r = emit("c15:expr:" + k[4:], e)
            if r:
                yield r


def call_worker(host, doc):
    interp = core.interpreter(host)
    env = dict(os.environ, PYTHONDONTWRITEBYTECODE="1", PYTHONHASHSEED="0", PYTHONPATH=core.VERIF)
    p = subprocess.run([interp, WORKER], input=json.dumps(doc), capture_output=True, text=True, env=env, timeout=3600)
    if p.returncode != 0:
        raise core.HarnessError("batch worker under %s failed: %s" % (host, p.stderr[-500:]))
    return json.loads(p.stdout)


def main(tier, seed, collect=None):
    t0 = time.time()
    total = core.ShardResult()
    total.MAX_EXTRA = 10**9
    avail = [r for r in RUNTIMES if core.interpreter(r)]
    missing = [r for r in RUNTIMES if r not in avail]
    for m in missing:
        total.notes["runtime %s is not installed: reduced coverage" % m] += 1
    # converter hosts: every interpreter the converter itself runs on, in both tiers (host-specific code paths of the
    # converter, e.g. the pre-rendering pass for 3.11+/3.12+, differ between adjacent versions)
    hosts = [h for h in ("py310", "py311", "py312", "py313") if h in avail]
    progs = list(programs(tier))
    total.c["programs_generated"] = len(progs)
    chunks = list(core.chunked(progs, max(50, len(progs) // 48)))
    cfgs = [[ci, list(core.CONFIGS[ci])] for ci in core.ALL_CFG]

    # 1. keep the programs python3.8 itself compiles (and which run there)
    pool = ThreadPoolExecutor(core.NPROC)
    lo = avail[0]
    ok38 = set()
    for res in pool.map(lambda ch: call_worker(lo, {"op": "check", "repo": core.REPO, "jobs": [[k, s, e, []] for k, s, e in ch]}), chunks):
        for key, st, _ in res:
            if st == "ok":
                ok38.add(key)
            else:
                total.c["skipped:" + st.split(" (")[0][:60]] += 1
    progs = [p for p in progs if p[0] in ok38]
    total.c["programs_in_scope"] = len(progs)
    chunks = list(core.chunked(progs, max(40, len(progs) // 64)))

    src_of_all = {k: s for k, s, e in progs}
    # 2. convert on every host
    texts = {}  # key -> {normalised text: (text, [labels])}
    def conv(args):
        h, ch = args
        return h, call_worker(h, {"op": "convert", "repo": core.REPO, "seed": seed, "jobs": [[k, s, cfgs] for k, s, e in ch]})
    status = {}  # (key, ci) -> {host: "ok" | error text}
    for h, res in pool.map(conv, [(h, ch) for h in hosts for ch in chunks]):
        for key, rs in res:
            for ci, st, text in rs:
                total.c["conversions"] += 1
                status.setdefault((key, ci), {})[h] = "ok" if st == "ok" else str(text)[:160]
                if st != "ok":
                    # a program refused on EVERY host is C01's/C08's business; here it only removes the text
                    total.c["conversions_raised"] += 1
                    continue
                d = texts.setdefault(key, {})
                ent = d.setdefault(core.norm_ol(text), (text, []))
                ent[1].append("%s/%d" % (h, ci))
    total.c["distinct_output_texts"] = sum(len(d) for d in texts.values())
    # a refusal that depends on the host: the program is evidently supported (another host converts it under the same
    # options), so "run on any supported host" is violated by the host that raises
    for (key, ci), by in sorted(status.items()):
        good = [h for h, v in by.items() if v == "ok"]
        bad = [h for h, v in by.items() if v != "ok"]
        if good and bad:
            total.fail(key, ci, "rejects", "conversion raises on host %s (%s) but succeeds on host %s" % (bad[0], by[bad[0]], good[0]),
                       {"source": src_of_all[key], "hosts_raising": bad, "hosts_converting": good})

    # 3. evaluate every distinct text on every runtime
    src_of = {k: (s, e) for k, s, e in progs}
    def chk(args):
        r, keys = args
        jobs = [[k, src_of[k][0], src_of[k][1], [[n, t] for n, (t, labels) in enumerate(texts[k].values())]] for k in keys if k in texts]
        return r, call_worker(r, {"op": "check", "repo": core.REPO, "jobs": jobs})
    keychunks = list(core.chunked([k for k, _, _ in progs], max(40, len(progs) // 48)))
    nsample = 0
    for r, res in pool.map(chk, [(r, kc) for r in avail for kc in keychunks]):
        for key, st, rs in res:
            if st != "ok":
                total.c["runtime_skips:" + r] += 1
                continue
            ents = list(texts[key].values())
            for n, diff in rs:
                total.c["evaluations"] += 1
                if diff:
                    text, labels = ents[n]
                    for lab in labels:
                        h, ci = lab.split("/")
                        klass = "malformed" if diff.startswith("does not compile") else "misbehaves"
                        total.fail(key, int(ci), klass, "runtime %s: %s" % (r, diff), {"source": src_of[key][0], "output": text[:2000], "runtime": r, "host": h}, host="conv-%s>run-%s" % (h, r))
            if nsample < 4 and (key.startswith("c15:syntax:") or nsample < 2) and ents:
                nsample += 1
                total.sample({"key": key, "runtime": r, "source": src_of[key][0], "distinct_texts": len(ents), "one_text": ents[0][0][:300]})
    # 4. syntax portability of the oneliner unparser on expression trees (C03's space):
    #    the text must parse, to the same tree, on every runtime on which the tree is denotable
    #    (witness: the host's ast.unparse text, or python3.9's re-rendering of it)
    trees = list(expr_cases(tier))
    total.c["expression_trees"] = len(trees)
    tchunks = list(core.chunked(trees, max(200, len(trees) // 32)))
    norm9 = {}
    if "py39" in avail:
        for res in pool.map(lambda ch: call_worker("py39", {"op": "normalise", "jobs": [[k, t12] for k, t12, u in ch]}), tchunks):
            norm9.update(dict(res))
    def pc(args):
        r, ch = args
        return r, call_worker(r, {"op": "parsecmp", "jobs": [[k, [t12, norm9.get(k)], u] for k, t12, u in ch]})
    for r, res in pool.map(pc, [(r, ch) for r in avail for ch in tchunks]):
        for key, diff in res:
            if diff == "skip":
                total.c["expression_trees_not_denotable_on:" + r] += 1
                continue
            total.c["expression_parse_checks"] += 1
            if diff:
                total.fail(key, None, "malformed", "runtime %s: %s" % (r, diff), None, host="conv-%s>run-%s" % (core.HOST, r))
    pool.shutdown()
    c = total.c
    cov = {
        "evaluations": c["evaluations"],
        "distinct_nontrivial": c["programs_in_scope"],
        "rule": "every program of the listed spaces that python3.8 compiles and runs is a case; every distinct output text (8 configurations x hosts, "
        "deduplicated up to __ol_ renaming) is evaluated on every runtime",
        "exhaustive": True,
        "hosts": hosts,
        "runtimes": avail,
        "programs_generated": c["programs_generated"],
        "distinct_output_texts": c["distinct_output_texts"],
        "states": c["programs_in_scope"],
        "transitions": c["conversions"],
        "traces_validated_against_impl": c["evaluations"],
    }
    assumptions = [
        "the interpreters under /root/.pyenv/versions are the runtimes; 3.14 is not installed (stated limit)",
        "each runtime computes its own reference observation of the source, so version differences of Python itself never count",
    ]
    return core.finish(PID, tier, seed, LEVEL, total, cov, assumptions, t0, collect)


def replay(payload):
    ex = payload.get("extra") or {}
    if ex.get("source") and ex.get("hosts_raising"):
        # host-dependent refusal: convert again on the hosts that raised and on one that converted
        ci = payload["cfg"]
        bad = 0
        for h in ex["hosts_raising"] + ex.get("hosts_converting", [])[:1]:
            res = call_worker(h, {"op": "convert", "repo": core.REPO, "jobs": [[payload["key"], ex["source"], [[ci, list(core.CONFIGS[ci])]]]]})
            st, text = res[0][1][0][1], res[0][1][0][2]
            print(payload["key"], "host", h, st, "" if st == "ok" else text)
            if st != "ok" and h in ex["hosts_raising"]:
                bad += 1
        return 1 if bad else 0
    if not ex.get("source") or not ex.get("runtime"):
        print("replay file lacks source/runtime")
        return 2
    key = payload["key"]
    envname = "scopes" if key.startswith("c15:c06:") else ("c12" if key.startswith("c15:c12:") else None)
    h = ex.get("host", "py312")
    ci = payload["cfg"]
    res = call_worker(h, {"op": "convert", "repo": core.REPO, "jobs": [[key, ex["source"], [[ci, list(core.CONFIGS[ci])]]]]})
    st, text = res[0][1][0][1], res[0][1][0][2]
    if st != "ok":
        print("conversion now raises:", text)
        return 0
    r = call_worker(ex["runtime"], {"op": "check", "repo": core.REPO, "jobs": [[key, ex["source"], envname, [[0, text]]]]})
    print(key, ex["runtime"], r[0][1], r[0][2])
    return 1 if (r[0][2] and r[0][2][0][1]) else 0

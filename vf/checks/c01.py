"""C01 - the converted one-liner behaves exactly like the source (E1, exhaustive exploration).

Space  : every derivation of the statement grammar of vf/spaces/compose.py (27 simple feature atoms,
         3 interrupts, 13 compound frames with block holes) with <= 3 statement nodes (quick) /
         <= 4 (thorough), each under all 8 option combinations.
Oracle : CPython must accept the source and run it to completion (else outside the fragment,
         counted); then for each configuration conversion returns, the text is one expression,
         eval in a fresh namespace writes the same stdout and leaves every user global equal;
         only __ol_* / itertools / importlib may be added.
"""
import time

from .. import core, progcheck
from ..spaces import compose

PID = "C01"
LEVEL = "exploration"


def run_shard(shard):
    size, r, k, cfgs = shard
    res = core.ShardResult()
    for idx, (key, src) in enumerate(compose.programs(size)):
        if idx % k != r:
            continue
        res.c["programs_generated"] += 1
        n = progcheck.check_program(res, key, src, cfgs)
        if n == 0 and idx % 997 == 0:
            res.sample({"key": key, "source": src})
    return res


def shards(tier):
    out = []
    mx = 3 if tier == "quick" else 4
    for size in range(1, mx + 1):
        k = {1: 1, 2: 16, 3: 256, 4: 2048}[size]
        for r in range(k):
            out.append((size, r, k, core.ALL_CFG))
    return out


def main(tier, seed, collect=None):
    t0 = time.time()
    total = core.run_shards(run_shard, shards(tier), seed=seed, pid=PID)
    other_hosts = core.run_on_hosts(PID, ["py310", "py311", "py313"], "quick", seed, total) if tier == "thorough" else []

    c = total.c
    cov = {
        "converter_hosts": [core.HOST] + other_hosts,
        "evaluations": c["executions"],
        "distinct_nontrivial": c["programs_in_scope"],
        "rule": "every derivation of the compose grammar up to the node bound is one program (distinct derivation key); non-trivial = "
        "CPython accepts it and runs it to completion, so all 8 conversions are executed and compared",
        "exhaustive": True,
        "max_statement_nodes": 3 if tier == "quick" else 4,
        "atoms": len(compose.SIMPLE),
        "frames": len(compose.FRAMES),
        "programs_generated": c["programs_generated"],
        "configurations": [core.cfg_name(i) for i in core.ALL_CFG],
        "states": c["programs_generated"],
        "transitions": c["executions"],
        "traces_validated_against_impl": c["executions"],
    }
    assumptions = [
        "CPython %s executing the source is the reference semantics" % core.HOST,
        "observation = stdout + canonical user globals (functions/classes by structure, no metadata)",
    ]
    return core.finish(PID, tier, seed, LEVEL, total, cov, assumptions, t0, collect)


def replay(payload):
    src = (payload.get("extra") or {}).get("source")
    if src is None:
        for size in range(1, 5):
            for key, s in compose.programs(size):
                if key == payload["key"]:
                    src = s
                    break
            if src:
                break
    res = core.ShardResult()
    progcheck.check_program(res, payload["key"], src, [payload["cfg"]] if payload.get("cfg") is not None else None)
    for f in res.fails:
        print("still failing:", f[0], core.cfg_name(f[1]), f[3], f[4])
    return 1 if res.fails else 0

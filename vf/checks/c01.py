"""C01 - the converted one-liner behaves exactly like the source (E1, exhaustive exploration).

Space  : every derivation of the statement grammar of vf/spaces/compose.py (27 simple feature atoms,
         3 interrupts, 15 compound frames with block holes) with <= 3 statement nodes (quick) /
         <= 4 (thorough), each under all 8 option combinations; plus a LENGTH SWEEP: a block of n simple
         statements for every n up to twice the converter's chunk length + 10, in 7 kinds of block.
Oracle : CPython must accept the source and run it to completion (else outside the fragment,
         counted); then for each configuration conversion returns, the text is one expression,
         eval in a fresh namespace writes the same stdout and leaves every user global equal;
         only __ol_* / itertools / importlib may be added.
"""
import time

from .. import core, progcheck
from ..spaces import compose

PID = "C01"
LEVEL = "exploration"


def sweep_programs(maxlen):
    """LENGTH SWEEP: a block of n consecutive simple statements for EVERY n in 1..maxlen, in each kind of block. The
    lowering cuts long blocks into chunks (chain_call wrapper), so block length is a dimension of its own: an
    off-by-one at a chunk boundary drops or duplicates exactly one statement of exactly one length."""
    for n in range(1, maxlen + 1):
        app = "".join("    r.append(%d)\n" % i for i in range(n))
        yield "c01:sweep:module:%d" % n, "".join("v%d = %d\n" % (i, i) for i in range(n)) + "print(v%d)\n" % (n - 1)
        yield "c01:sweep:func:%d" % n, "def f():\n    r = []\n" + app + "    return r\nprint(f())\n"
        yield "c01:sweep:class:%d" % n, "class K:\n" + "".join("    v%d = %d\n" % (i, i) for i in range(n)) + "print(sorted(k for k in vars(K) if k[0] == 'v'))\n"
        yield "c01:sweep:forbody:%d" % n, "r = []\nfor j in range(2):\n" + app + "print(r)\n"
        yield "c01:sweep:whilebody:%d" % n, "r = []\nwhile len(r) < %d:\n" % n + app + "print(r)\n"
        yield "c01:sweep:ifbody:%d" % n, "r = []\nif r == []:\n" + app + "else:\n" + app + "print(r)\n"
        yield "c01:sweep:after-return-guard:%d" % n, "def f(a):\n    r = []\n    if a:\n        return r\n" + app + "    return r\nprint(f(0), f(1))\n"


def sweep_bound():
    core.ol()
    import oneliner.utils as u

    return 2 * int(getattr(u, "CHAIN_CALL_MAX_LENGTH", 50)) + 10


def run_shard(shard):
    if shard[0] == "sweep":
        _, r, k, cfgs = shard
        res = core.ShardResult()
        for idx, (key, src) in enumerate(sweep_programs(sweep_bound())):
            if idx % k != r:
                continue
            res.c["programs_generated"] += 1
            res.c["sweep_programs"] += 1
            progcheck.check_program(res, key, src, cfgs)
        return res
    size, r, k, cfgs = shard
    res = core.ShardResult()
    for idx, (key, src) in enumerate(compose.programs(size)):
        if idx % k != r:
            continue
        res.c["programs_generated"] += 1
        n = progcheck.check_program(res, key, src, cfgs)
        if n == 0 and idx % 997 == 0:
            res.sample({"key": key, "source": src})
    return res


def shards(tier):
    out = []
    mx = 3 if tier == "quick" else 4
    for size in range(1, mx + 1):
        k = {1: 1, 2: 16, 3: 256, 4: 2048}[size]
        for r in range(k):
            out.append((size, r, k, core.ALL_CFG))
    for r in range(32):
        out.append(("sweep", r, 32, core.ALL_CFG))
    return out


def main(tier, seed, collect=None):
    t0 = time.time()
    total = core.run_shards(run_shard, shards(tier), seed=seed, pid=PID)
    other_hosts = core.run_on_hosts(PID, ["py310", "py311", "py313"], "quick", seed, total) if tier == "thorough" else []

    c = total.c
    cov = {
        "converter_hosts": [core.HOST] + other_hosts,
        "evaluations": c["executions"],
        "distinct_nontrivial": c["programs_in_scope"],
        "rule": "every derivation of the compose grammar up to the node bound is one program (distinct derivation key); non-trivial = "
        "CPython accepts it and runs it to completion, so all 8 conversions are executed and compared",
        "exhaustive": True,
        "max_statement_nodes": 3 if tier == "quick" else 4,
        "atoms": len(compose.SIMPLE),
        "frames": len(compose.FRAMES),
        "length_sweep": "every block length 1..%d in 7 block kinds" % sweep_bound(),
        "programs_generated": c["programs_generated"],
        "configurations": [core.cfg_name(i) for i in core.ALL_CFG],
        "states": c["programs_generated"],
        "transitions": c["executions"],
        "traces_validated_against_impl": c["executions"],
    }
    assumptions = [
        "CPython %s executing the source is the reference semantics" % core.HOST,
        "observation = stdout + canonical user globals (functions/classes by structure, no metadata)",
    ]
    return core.finish(PID, tier, seed, LEVEL, total, cov, assumptions, t0, collect)


def replay(payload):
    src = (payload.get("extra") or {}).get("source")
    if src is None:
        for size in range(1, 5):
            for key, s in compose.programs(size):
                if key == payload["key"]:
                    src = s
                    break
            if src:
                break
    res = core.ShardResult()
    progcheck.check_program(res, payload["key"], src, [payload["cfg"]] if payload.get("cfg") is not None else None)
    for f in res.fails:
        print("still failing:", f[0], core.cfg_name(f[1]), f[3], f[4])
    return 1 if res.fails else 0

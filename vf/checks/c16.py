"""C16 - the command line writes exactly the API result and validates options
(E3: exhaustive enumeration of argument histories against an option-state reference model).

Alphabet : -C<name>=<value> for 3 options x 2 legal values, one illegal value per option, an
           unknown name, three names that are attributes but not options, malformed forms
           (-Cunparser, -Ca=b=c, -C=, -Cunparser=oneliner=x), --unparser {ast.unparse, oneliner, bogus};
           plus, in histories of length 1 and 2 only, -C<attr>=x for EVERY attribute name of the real
           options object/class other than the three options (read from the code under check)
Histories: every argument sequence of length <= 2 (quick) / <= 3 (thorough)
           x output mode {stdout, -o absent file, -o pre-existing file with sentinel content}
           x a pool of 5 input files (plain, non-ASCII, control flow, unparser-sensitive shapes, unconvertible script).
           Each history is one real `python -m oneliner` process.
Model    : options start at their defaults; the last legal -C per option wins; --unparser is applied
           after all -C; any illegal element makes the whole run an error.
Oracle   : legal history => exit 0 and the bytes written/printed equal convert_code_string(file
           text, configs=<model state>) from a FRESH process, modulo __ol_ renaming, and that text
           evaluates like the script; any illegal element (or an unconvertible script) => non-zero
           exit, no output file created, a pre-existing output file byte-identical.
"""
import itertools
import json
import os
import shutil
import subprocess
import sys
import tempfile
import time

from .. import core, observe

PID = "C16"
LEVEL = "model_checking"

OPTIONS = ["unparser", "expr_wrapper", "if_style"]
LEGAL = {"unparser": ["ast.unparse", "oneliner"], "expr_wrapper": ["list", "chain_call"], "if_style": ["if_expr", "short_circuit"]}
DEFAULTS = ("ast.unparse", "chain_call", "if_expr")

FILES = {
    "plain.py": "x = 2\nif x > 1:\n    print('big', x)\nelse:\n    print('small')\nprint([i for i in range(3)])\n",
    "unicode.py": "s = 'h\u00e9llo \u20ac \u4e16\u754c'\nprint(s, len(s))\nd = {'k\u00e9y': 1}\nprint(d)\n",
    "flow.py": "t = 0\nfor i in range(5):\n    if i == 3:\n        break\n    if i == 1:\n        continue\n    t += i\nelse:\n    t = -1\nwhile t < 5:\n    t += 2\ndef f(a, b=2):\n    if a:\n        return a + b\n    return b\nprint(t, f(0), f(1))\n",
    # shapes whose TEXT differs between the two unparsers and the wrappers: lambdas/defs with every parameter kind and
    # distinct defaults, nested f-strings and quotes, slices, starred calls, comparison chains, a class with decorators
    "shapes.py": (
        "def g(a, b=3, /, c=4, *d, e, f=6, **h):\n    return (a, b, c, d, e, f, sorted(h.items()))\n"
        "lam = lambda p=1, q=2, /, r=3, *, s=4: (p - q) * (r - s)\n"
        "print(g(1, e=5), g(1, 2, 3, 4, e=5, z=0), lam(), lam(7), lam(7, 8, r=1))\n"
        "w = {'k\"': [1, 2, 3, 4]}\n"
        "KEY = 'k\"'\nprint(f\"{w[KEY][1:3]!r:>12} {lam(2)!s:{'<'}{5}}|{'q'}\", w[KEY][::-1], *w[KEY][:2], sep='-')\n"
        "def deco(c):\n    c.tag = -1 ** 2 + (-1) ** 2\n    return c\n"
        "@deco\nclass K:\n    x = 1 if not 0 < 1 <= 2 else (yield_ := 2)\n    def m(self, *a, k=(1, 2)):\n        return [i for i in a if i] or k\n"
        "print(K.tag, K.x, K().m(0, 3), K().m(), (lambda: (yield_2 := 5))(), 2 ** -1, not (1 and 0), -(1 + 2))\n"
        "print(sorted((i * i for i in (3, 1, 2)), reverse=True), max((j for j in ()), default=None), dict(((1, 2),), **{'z': 0}, y=1))\n"
    ),
    "unconvertible.py": "try:\n    x = 1\nexcept Exception:\n    pass\nprint(x)\n",
}
SENTINEL = b"SENTINEL-previous-content\n"


def alphabet():
    """(label, argv fragment, effect) ; effect = ('set', opt, val) | ('unparser', val) | ('error',)"""
    A = []
    for o in OPTIONS:
        for v in LEGAL[o]:
            A.append(("-C%s=%s" % (o, v), ["-C%s=%s" % (o, v)], ("set", o, v)))
    A.append(("-C unparser=oneliner", ["-C", "unparser=oneliner"], ("set", "unparser", "oneliner")))
    for o in OPTIONS:
        A.append(("-C%s=bogus" % o, ["-C%s=bogus" % o], ("error",)))
    A.append(("-Cif_style=list", ["-Cif_style=list"], ("error",)))  # a value legal for another option
    for o in OPTIONS:
        v = LEGAL[o][1]
        A.append(("-C%s=%s" % (o, v.upper()), ["-C%s=%s" % (o, v.upper())], ("error",)))  # legal value in another letter case
    A.append(("-Cif_style=Short_circuit", ["-Cif_style=Short_circuit"], ("error",)))
    A.append(("-Cunparser= oneliner", ["-Cunparser= oneliner"], ("error",)))
    A.append(("-Cunknown=1", ["-Cunknown=1"], ("error",)))
    for n in ("config_names", "__init__", "__doc__", "__class__"):
        A.append(("-C%s=x" % n, ["-C%s=x" % n], ("error",)))
    for m in ("-Cunparser", "-Ca=b=c", "-C=", "-Cunparser=oneliner=x", "-Cunparser=", "-C=oneliner", "-CUNPARSER=oneliner", "-Cunparser =oneliner"):
        A.append((m, [m], ("error",)))
    for v in ("ast.unparse", "oneliner"):
        A.append(("--unparser " + v, ["--unparser", v], ("unparser", v)))
    A.append(("--unparser bogus", ["--unparser", "bogus"], ("error",)))
    return A


def wide_alphabet():
    """Every attribute name of the real options object (read from the code under check) that is not one of the three
    options, as `-C<name>=x`: none of them is an option, and `x` is a legal value of no option, so each must be an
    error whatever the implementation's own list of option names says.  Used in histories of length 1 and 2 only."""
    core.ol()
    import oneliner.config as cfgmod

    names = set(dir(cfgmod.Configs)) | set(dir(cfgmod.Configs()))
    done = {a[0] for a in alphabet()}
    out = []
    for n in sorted(names):
        if n in OPTIONS or "=" in n:
            continue
        lab = "-C%s=x" % n
        if lab not in done:
            out.append((lab, [lab], ("error",)))
    return out


def model(seq):
    """reference model of the option state after an argument sequence; None = must be an error"""
    st = list(DEFAULTS)
    late = None
    for label, argv, eff in seq:
        if eff[0] == "error":
            return None
        if eff[0] == "set":
            st[OPTIONS.index(eff[1])] = eff[2]
        else:
            late = eff[1]
    if late is not None:
        st[0] = late
    return tuple(st)


_REF_SNIPPET = r"""
import sys, json
sys.path.insert(0, sys.argv[1])
import oneliner, oneliner.config
src = open(sys.argv[2], encoding="utf8").read()
c = oneliner.config.Configs()
c.unparser, c.expr_wrapper, c.if_style = sys.argv[3].split(",")
try:
    t = oneliner.convert_code_string(src, configs=c)
    sys.stdout.write(json.dumps(["ok", t]))
except Exception as e:
    sys.stdout.write(json.dumps(["raised", type(e).__name__]))
"""


def references(workdir):
    """(file, option vector) -> ('ok', normalised text) | ('raised', type), one fresh process each"""
    from concurrent.futures import ThreadPoolExecutor

    vecs = [tuple(v) for v in itertools.product(*[LEGAL[o] for o in OPTIONS])]
    jobs = [(f, v) for f in FILES for v in vecs]

    def one(job):
        f, v = job
        r = subprocess.run(
            [sys.executable, "-c", _REF_SNIPPET, core.REPO, os.path.join(workdir, f), ",".join(v)],
            capture_output=True, text=True, timeout=120, env=dict(os.environ, PYTHONDONTWRITEBYTECODE="1"),
        )
        if r.returncode != 0:
            raise core.HarnessError("reference process failed: " + r.stderr[-300:])
        st, t = json.loads(r.stdout)
        return job, (st, core.norm_ol(t) if st == "ok" else t, t)

    with ThreadPoolExecutor(core.NPROC) as ex:
        return dict(ex.map(one, jobs))


def run_cli(workdir, fname, seq, outmode, idx):
    argv = [sys.executable, "-m", "oneliner", os.path.join(workdir, fname)]
    for _, frag, _ in seq:
        argv += frag
    outpath = None
    if outmode != "stdout":
        outpath = os.path.join(workdir, "out-%d-%d.txt" % (os.getpid(), idx))
        if os.path.exists(outpath):
            os.unlink(outpath)
        if outmode == "existing":
            with open(outpath, "wb") as f:
                f.write(SENTINEL)
        argv += ["-o", outpath]
    env = dict(os.environ, PYTHONPATH=core.REPO, PYTHONIOENCODING="utf-8", PYTHONDONTWRITEBYTECODE="1", PYTHONWARNINGS="ignore")
    r = subprocess.run(argv, capture_output=True, cwd=workdir, env=env, timeout=120)
    content = None
    if outpath is not None and os.path.exists(outpath):
        with open(outpath, "rb") as f:
            content = f.read()
        os.unlink(outpath)
    return r.returncode, r.stdout, r.stderr, content


def case_key(fname, seq, outmode):
    return "c16:%s:%s:[%s]" % (fname, outmode, " ".join(s[0].replace(" ", "_") for s in seq))


def run_shard(shard):
    workdir, refs, cases = shard
    res = core.ShardResult()
    for idx, (fname, seq, outmode) in enumerate(cases):
        key = case_key(fname, seq, outmode)
        want = model(seq)
        rc, out, err, content = run_cli(workdir, fname, seq, outmode, idx)
        res.c["cli_processes"] += 1
        extra = {"argv": [x for s in seq for x in s[1]], "file": fname, "outmode": outmode, "exit": rc, "stderr": err.decode("utf8", "replace")[-300:]}
        ref = refs[(fname, want)] if want is not None else None
        must_fail = want is None or ref[0] != "ok"
        if must_fail:
            res.c["error_histories"] += 1
            if rc == 0:
                res.fail(key, None, "misbehaves", "exit status 0 for %s" % ("an illegal option list" if want is None else "an unconvertible script"), extra)
            elif outmode == "absent" and content is not None:
                res.fail(key, None, "misbehaves", "output file was created although the run failed", extra)
            elif outmode == "existing" and content != SENTINEL:
                res.fail(key, None, "misbehaves", "pre-existing output file was modified although the run failed", extra)
            continue
        res.c["legal_histories"] += 1
        if rc != 0:
            res.fail(key, None, "rejects", "exit status %d for a legal option list" % rc, extra)
            continue
        if outmode == "stdout":
            data = out
            if not data.endswith(b"\n"):
                res.fail(key, None, "misbehaves", "printed text does not end with a newline", extra)
                continue
            data = data[:-1]
            if data.endswith(b"\r"):
                data = data[:-1]
        else:
            data = content
            if data is None:
                res.fail(key, None, "misbehaves", "no output file written", extra)
                continue
        try:
            text = data.decode("utf8")
        except UnicodeDecodeError as e:
            res.fail(key, None, "malformed", "output is not UTF-8: %s" % e, extra)
            continue
        if core.norm_ol(text) != ref[1]:
            a, b = core.norm_ol(text), ref[1]
            n = 0
            while n < min(len(a), len(b)) and a[n] == b[n]:
                n += 1
            extra["got"] = a[max(0, n - 40) : n + 60]
            extra["api"] = b[max(0, n - 40) : n + 60]
            res.fail(key, None, "misbehaves", "CLI output differs from the API result for options %s at char %d" % (want, n), extra)
        elif len(seq) == 2:
            res.sample({"key": key, "model_state": want, "output": text[:160]}, 1)
    return res


def cases(tier):
    A = alphabet()
    maxlen = 2 if tier == "quick" else 3
    out = []
    for n in range(maxlen + 1):
        for seq in itertools.product(A, repeat=n):
            if n == 3 or (n == 2 and tier == "quick"):
                # longest histories: one file; a pre-existing -o file for histories whose model state is an
                # error, stdout and a fresh -o file otherwise (still exhaustive over argument sequences)
                files = ["flow.py"]
                modes = ["existing"] if model(seq) is None else ["stdout", "absent"]
            else:
                files = list(FILES)
                modes = ["stdout", "absent", "existing"]
            for f in files:
                for m in modes:
                    out.append((f, seq, m))
    legal = A[0]
    for w in wide_alphabet():
        for seq in ((w,), (legal, w), (w, legal)):
            for m in ("absent", "existing"):
                out.append(("flow.py", seq, m))
    return out


def main(tier, seed, collect=None):
    t0 = time.time()
    workdir = tempfile.mkdtemp(prefix="vf-c16-", dir="/var/tmp")
    try:
        for f, src in FILES.items():
            with open(os.path.join(workdir, f), "w", encoding="utf8") as fh:
                fh.write(src)
        total0 = core.ShardResult()
        refs = references(workdir)
        # the API text must itself evaluate like the script (once per file x option vector)
        nref = 0
        for (f, v), (st, norm, text) in sorted(refs.items()):
            nref += 1
            if f == "unconvertible.py":
                if st == "ok":
                    total0.notes["unconvertible.py converted by the API: treated as convertible"] += 1
                continue
            if st != "ok":
                total0.fail("c16:api:%s:%s" % (f, ",".join(v)), None, "rejects", "API raised %s for a supported script" % norm)
                continue
            why = core.is_single_line_expr(text)
            if why:
                total0.fail("c16:api:%s:%s" % (f, ",".join(v)), None, "malformed", why)
                continue
            a, _ = observe.run(FILES[f], "exec")
            b, _ = observe.run(text, "eval")
            d = observe.compare(a, b)
            if d:
                total0.fail("c16:api:%s:%s" % (f, ",".join(v)), None, "misbehaves", "API text does not evaluate like the script: " + d)
        cs = cases(tier)
        shards = [(workdir, refs, ch) for ch in core.chunked(cs, 24)]
        total = core.run_shards(run_shard, shards, seed=seed, pid=PID)
        total.fails.extend(total0.fails)
        total.notes.update(total0.notes)
        c = total.c
        states = {model(s) for _, s, _ in cs}
        cov = {
            "states": len(states),
            "transitions": c["cli_processes"],
            "traces_validated_against_impl": c["cli_processes"],
            "evaluations": c["cli_processes"],
            "distinct_nontrivial": c["legal_histories"] + c["error_histories"] - sum(1 for _, s, _ in cs if not s),
            "rule": "a case is one argument history x input file x output mode, run as a real `python -m oneliner` process; "
            "non-trivial = at least one option argument; states = distinct reference-model states (option vectors + error)",
            "exhaustive": True,
            "alphabet": [a[0] for a in alphabet()],
            "attribute_name_alphabet_(histories_of_length_1_and_2)": [a[0] for a in wide_alphabet()],
            "max_history_length": 2 if tier == "quick" else 3,
            "files": list(FILES),
            "api_references_from_fresh_processes": nref,
        }
        assumptions = [
            "the reference model of option parsing: defaults, last legal -C wins per option, --unparser applied last, any illegal element is an error",
            "PYTHONIOENCODING=utf-8 for the printed form; a trailing newline is added by print",
        ]
        return core.finish(PID, tier, seed, LEVEL, total, cov, assumptions, t0, collect)
    finally:
        shutil.rmtree(workdir, ignore_errors=True)


def replay(payload):
    ex = payload.get("extra") or {}
    if "argv" not in ex:
        print("API-level failure, rerun the check:", payload.get("key"), payload.get("detail"))
        return 1
    A = {a[0].replace(" ", "_"): a for a in alphabet() + wide_alphabet()}
    labels = payload["key"].split(":[", 1)[1][:-1].split()
    seq = tuple(A[l] for l in labels)
    workdir = tempfile.mkdtemp(prefix="vf-c16-", dir="/var/tmp")
    try:
        for f, src in FILES.items():
            with open(os.path.join(workdir, f), "w", encoding="utf8") as fh:
                fh.write(src)
        refs = references(workdir)
        r = run_shard((workdir, refs, [(ex["file"], seq, ex["outmode"])]))
        for f in r.fails:
            print("still failing:", f[0], f[3], f[4])
        return 1 if r.fails else 0
    finally:
        shutil.rmtree(workdir, ignore_errors=True)

"""C08 - unsupported constructs are rejected, never silently dropped or mistranslated (E1, exhaustive).

Space  : (host program with one hole) x (construct), hosts classified by position:
         statement holes : module level, function body, method, class body, for/while body, loop
                           else, if body/else, def nested in a loop, class nested in a loop, nested
                           def, dead code after break/continue/return, lambda-free nesting 3 deep
         expression holes: statement expression, right-hand side, augmented value, call argument,
                           keyword argument, default value, decorator, base class, class keyword,
                           subscript, slice bound, comprehension element/iterable/condition, lambda
                           body, f-string field and format spec, if/while condition, for iterable,
                           return value, dict value, walrus value, conditional-expression arms
         constructs      : yield, yield x, yield from, await, async comprehension, async def/for/with,
                           try/except, try/finally, try/except*, raise, raise from, with, assert,
                           del name/attribute/subscript, match, type alias, from m import *,
                           global/nonlocal misuse is NOT included (not named by the property)
         illegal placements that parse but CPython refuses to compile: break/continue outside a
         loop (module, if, loop else, def or class nested in a loop, after return), return outside
         a function (module, class body, class in function, loop at module level), two starred
         names in one target pattern (assignment, nested pattern, for target, chained assignment).
Oracle : ast.parse(source) succeeds (else not a case)  =>  convert_code_string must RAISE for every
         option combination; returning a string is the violation.  Control: the same host with a
         harmless filler in the hole must convert (no false rejection).
"""
import ast
import sys
import time
import warnings

from .. import core

PID = "C08"
LEVEL = "exploration"

STMT_HOSTS = {
    "module": "x = 1\n{S}\nprint(x)\n",
    "func": "def f(a):\n    b = a\n{S1}\n    return b\nf(1)\n",
    "method": "class K:\n    def m(self):\n{S2}\n        return 1\nK().m()\n",
    "classbody": "class K:\n    v = 1\n{S1}\n    w = 2\n",
    "forbody": "for i in range(2):\n{S1}\n    print(i)\n",
    "whilebody": "n = 0\nwhile n < 2:\n    n += 1\n{S1}\n",
    "forelse": "for i in range(2):\n    pass\nelse:\n{S1}\n",
    "whileelse": "n = 0\nwhile n < 1:\n    n += 1\nelse:\n{S1}\n",
    "ifbody": "x = 1\nif x:\n{S1}\nelse:\n    pass\n",
    "ifelse": "x = 0\nif x:\n    pass\nelse:\n{S1}\n",
    "elif": "x = 0\nif x:\n    pass\nelif x == 0:\n{S1}\n",
    "def-in-loop": "for i in range(2):\n    def g():\n{S2}\n        return 1\n    g()\n",
    "class-in-loop": "for i in range(2):\n    class C:\n{S2}\n        z = 1\n",
    "nested-def": "def f():\n    def g():\n{S2}\n        return 2\n    return g()\nf()\n",
    "dead-after-return": "def f():\n    return 1\n{S1}\nf()\n",
    "dead-after-break": "for i in range(2):\n    break\n{S1}\n",
    "dead-after-continue": "for i in range(2):\n    continue\n{S1}\n",
    "dead-after-return-in-if": "def f(a):\n    if a:\n        return 1\n{S2}\n    return 2\nf(1)\n",
    "deep": "def f():\n    for i in range(1):\n        if i == 0:\n            while True:\n{S4}\n                break\nf()\n",
    "loop-in-class-in-func": "def f():\n    class C:\n        for j in range(1):\n{S3}\n    return C\nf()\n",
}
STMT_FILLER = "pass"
STMT_CONSTRUCTS = {
    "yield": "yield",
    "yield-value": "yield 1",
    "yield-assign": "t = yield 1",
    "yield-from": "yield from []",
    "await": "await q",
    "async-def": "async def h():\n    pass",
    "async-for": "async for z in q:\n    pass",
    "async-with": "async with q as z:\n    pass",
    "try-except": "try:\n    pass\nexcept Exception:\n    pass",
    "try-finally": "try:\n    pass\nfinally:\n    pass",
    "try-star": "try:\n    pass\nexcept* Exception:\n    pass",
    "raise": "raise ValueError(1)",
    "raise-bare": "raise",
    "raise-from": "raise ValueError(1) from None",
    "with": "with open('x') as fh:\n    pass",
    "with-noas": "with q:\n    pass",
    "assert": "assert True",
    "assert-msg": "assert 1, 'm'",
    "del-name": "tmp = 1\ndel tmp",
    "del-attr": "del q.a",
    "del-sub": "del q[0]",
    "match": "match 1:\n    case 1:\n        pass\n    case _:\n        pass",
    "type-alias": "type T = int",
    "star-import": "from os import *",
    "async-listcomp": "t = [z async for z in q]",
    "async-genexp": "t = (z async for z in q)",
    "await-in-comp": "t = [await z for z in q]",
    "lambda-yield": "t = lambda: (yield)",
    "nested-yield-in-call": "print((yield 2))",
    "yield-in-fstring": "t = f'{(yield 3)}'",
    "yield-in-default": "def h(a=(yield 4)):\n    pass",
    "yield-in-decorator": "@(yield 5)\ndef h():\n    pass",
    "yield-in-base": "class H((yield 6)):\n    pass",
    "yield-in-subscript-target": "q[(yield 7)] = 1",
    "yield-in-aug": "q += (yield 8)",
    "yield-in-for-iter": "for z in (yield 9):\n    pass",
    "yield-in-while-test": "while (yield 10):\n    break",
    "yield-in-if-test": "if (yield 11):\n    pass",
    "yield-in-return": "return (yield 12)",
    "try-in-nested-def": "def h():\n    try:\n        pass\n    finally:\n        pass",
    "with-in-nested-class": "class H:\n    with q:\n        pass",
    "del-in-if": "if 1:\n    del q",
    "raise-in-loop-else": "for z in ():\n    pass\nelse:\n    raise SystemExit",
}
EXPR_HOSTS = {
    "stmt-expr": "<E>\n",
    "rhs": "x = <E>\n",
    "aug-value": "x = 0\nx += <E>\n",
    "call-arg": "print(<E>)\n",
    "call-kwarg": "print(1, end=<E>)\n",
    "default": "def f(a=<E>):\n    return a\n",
    "kwdefault": "def f(*, a=<E>):\n    return a\n",
    "decorator": "@<E>\ndef f():\n    pass\n",
    "base": "class K(<E>):\n    pass\n",
    "class-keyword": "class K(metaclass=<E>):\n    pass\n",
    "subscript": "x = [0]\ny = x[<E>]\n",
    "slice-bound": "x = [0]\ny = x[<E>:]\n",
    "subscript-target": "x = [0]\nx[<E>] = 1\n",
    "attr-target": "(<E>).a = 1\n",
    "comp-elt": "y = [<E> for i in range(1)]\n",
    "comp-iter": "y = [i for i in <E>]\n",
    "comp-iter2": "y = [i for j in range(1) for i in <E>]\n",
    "comp-cond": "y = [i for i in range(1) if <E>]\n",
    "genexp-elt": "y = list(<E> for i in range(1))\n",
    "dictcomp-value": "y = {i: <E> for i in range(1)}\n",
    "lambda-body": "y = lambda: <E>\n",
    "lambda-default": "y = lambda a=<E>: a\n",
    "fstring-field": "y = f'{ <E> }'\n",
    "fstring-spec": "y = f'{1:{<E>}}'\n",
    "if-test": "if <E>:\n    pass\n",
    "while-test": "while <E>:\n    break\n",
    "for-iter": "for i in <E>:\n    pass\n",
    "return-value": "def f():\n    return <E>\n",
    "dict-value": "y = {1: <E>}\n",
    "walrus-value": "y = (w := <E>)\n",
    "ifexp-body": "y = <E> if 1 else 0\n",
    "ifexp-test": "y = 1 if <E> else 0\n",
    "boolop": "y = 1 and <E>\n",
    "compare": "y = 1 < <E>\n",
    "starred-arg": "print(*<E>)\n",
    "in-method-call-chain": "y = str(<E>).upper()\n",
    "in-func-body": "def f():\n    x = <E>\n    return x\n",
    "in-class-body": "class K:\n    x = <E>\n",
    "in-loop-in-func": "def f():\n    for i in range(1):\n        x = [<E>]\n",
    "dead-expr": "def f():\n    return 0\n    x = <E>\n",
    # positions whose expression the converter drops or treats specially (annotations) and the remaining
    # expression slots of the grammar
    "return-annotation": "def f() -> <E>:\n    pass\n",
    "return-annotation-nested-def": "def g():\n    def f() -> <E>:\n        pass\n    return f\n",
    "return-annotation-method": "class K:\n    def m(self) -> <E>:\n        pass\n",
    "param-annotation": "def f(a: <E>):\n    pass\n",
    "posonly-annotation": "def f(a: <E>, /):\n    pass\n",
    "kwonly-annotation": "def f(*, a: <E> = 1):\n    pass\n",
    "vararg-annotation": "def f(*a: <E>):\n    pass\n",
    "kwarg-annotation": "def f(**a: <E>):\n    pass\n",
    "param-annotation-nested-def": "def g():\n    def f(a: <E>):\n        pass\n    return f\n",
    "annassign-annotation": "x: <E> = 1\n",
    "annassign-annotation-bare": "x: <E>\n",
    "annassign-annotation-attr": "class O:\n    pass\no = O()\no.a: <E> = 1\n",
    "annassign-annotation-in-func": "def f():\n    x: <E> = 1\n    return x\n",
    "annassign-annotation-in-class": "class K:\n    x: <E> = 1\n",
    "annassign-value": "x: int = <E>\n",
    "class-decorator": "@<E>\nclass K:\n    pass\n",
    "decorator-arg": "def d(a):\n    return lambda f: f\n@d(<E>)\ndef f():\n    pass\n",
    "class-other-keyword": "class B:\n    def __init_subclass__(cls, **k):\n        pass\nclass K(B, tag=<E>):\n    pass\n",
    "aug-target-index": "x = [0]\nx[<E>] += 1\n",
    "aug-target-object": "(<E>).a += 1\n",
    "for-target-index": "x = [0]\nfor x[<E>] in [1]:\n    pass\n",
    "unpack-target-index": "x = [0]\nx[<E>], y = 1, 2\n",
    "dict-key": "y = {<E>: 1}\n",
    "set-elt": "y = {<E>}\n",
    "tuple-elt": "y = (<E>, 1)\n",
    "list-elt": "y = [<E>]\n",
    "slice-upper": "x = [0]\ny = x[:<E>]\n",
    "slice-step": "x = [0]\ny = x[::<E>]\n",
    "attribute-base": "y = (<E>).real\n",
    "call-func": "y = (<E>)()\n",
    "list-star": "y = [*<E>]\n",
    "dict-doublestar": "y = {**<E>}\n",
    "call-doublestar": "print(**<E>)\n",
    "unaryop": "y = -<E>\n",
    "binop-left": "y = <E> + 1\n",
    "binop-right": "y = 1 + <E>\n",
    "compare-left": "y = <E> < 1\n",
    "lambda-kwdefault": "y = lambda *, a=<E>: a\n",
    "ifexp-orelse": "y = 1 if 0 else <E>\n",
    "dictcomp-key": "y = {<E>: i for i in range(1)}\n",
    "setcomp-elt": "y = {<E> for i in range(1)}\n",
    "fstring-nested-field": "y = f'{f\"{ <E> }\"}'\n",
    # loop headers under every lowering variant of the loop (plain, with continue, with else, with break, with return)
    "for-iter-continue": "for i in <E>:\n    if i:\n        continue\n    k = 1\n",
    "for-iter-else": "for i in <E>:\n    pass\nelse:\n    k = 1\n",
    "for-iter-continue-else": "for i in <E>:\n    if i:\n        continue\n    k = 1\nelse:\n    k = 2\n",
    "for-iter-break": "for i in <E>:\n    if i:\n        break\n    k = 1\n",
    "for-iter-break-else": "for i in <E>:\n    if i:\n        break\nelse:\n    k = 1\n",
    "for-iter-return": "def f():\n    for i in <E>:\n        if i:\n            return 1\n        k = 1\n",
    "for-iter-nested-inner": "for j in [1]:\n    for i in <E>:\n        if i:\n            continue\n        k = 1\n",
    "for-iter-in-class": "class K:\n    for i in <E>:\n        if i:\n            continue\n        k = 1\n",
    "while-test-continue": "while <E>:\n    if 1:\n        continue\n    k = 1\n",
    "while-test-else": "while <E>:\n    k = 0\nelse:\n    k = 1\n",
    "while-test-break-else": "while <E>:\n    if 1:\n        break\nelse:\n    k = 1\n",
    "while-test-return": "def f():\n    while <E>:\n        if 1:\n            return 1\n        k = 1\n",
    "while-else-expr": "while 0:\n    pass\nelse:\n    <E>\n",
    "elif-test": "if 0:\n    pass\nelif <E>:\n    pass\n",
}
EXPR_FILLER = "0"
EXPR_CONSTRUCTS = {
    "yield": "(yield)",
    "yield-value": "(yield 1)",
    "yield-from": "(yield from [])",
    "await": "(await q)",
    "async-listcomp": "[z async for z in q]",
    "async-genexp": "(z async for z in q)",
    "async-dictcomp": "{z: 1 async for z in q}",
    "await-in-comp": "[await z for z in q]",
    "lambda-yield": "(lambda: (yield))",
    "nested-yield": "[0, (1, {2: (yield 3)})]",
    "yield-in-inner-fstring": "f'{(yield)}'",
    "await-in-call": "g(await q)",
}
ILLEGAL = {
    "break-module": "break\n",
    "continue-module": "continue\n",
    "break-in-if": "if 1:\n    break\n",
    "continue-in-if-else": "if 0:\n    pass\nelse:\n    continue\n",
    "break-in-for-else": "for i in range(1):\n    pass\nelse:\n    break\n",
    "continue-in-while-else": "while 0:\n    pass\nelse:\n    continue\n",
    "break-in-def-in-loop": "for i in range(1):\n    def f():\n        break\n",
    "continue-in-def-in-loop": "while 1:\n    def f():\n        continue\n    break\n",
    "break-in-class-in-loop": "for i in range(1):\n    class C:\n        break\n",
    "continue-in-class-in-loop": "for i in range(1):\n    class C:\n        continue\n",
    "break-in-if-in-method-in-class-in-loop": "for i in range(1):\n    class C:\n        def m(self):\n            if 1:\n                break\n",
    "break-in-func": "def f():\n    break\n",
    "break-in-lambda-host": "def f():\n    if 1:\n        continue\n",
    "break-after-return": "def f():\n    return 1\n    break\n",
    "continue-after-return-in-func-in-loop": "for i in range(1):\n    def f():\n        return 1\n        continue\n",
    "break-in-class": "class C:\n    break\n",
    "return-module": "return 1\n",
    "return-bare-module": "return\n",
    "return-in-class": "class C:\n    return 1\n",
    "return-in-class-in-func": "def f():\n    class C:\n        return 1\n",
    "return-in-module-loop": "for i in range(1):\n    return i\n",
    "return-in-module-if": "if 1:\n    return 0\n",
    "return-in-module-while-else": "while 0:\n    pass\nelse:\n    return\n",
    "return-in-class-loop": "class C:\n    for i in range(1):\n        return i\n",
    "return-after-break-in-module-loop": "for i in range(1):\n    break\n    return 1\n",
    "two-stars-assign": "*a, *b = [1, 2]\n",
    "two-stars-assign-mid": "a, *b, c, *d = [1, 2, 3]\n",
    "two-stars-list": "[*a, *b] = [1, 2]\n",
    "two-stars-nested": "x, (*a, *b) = 1, [2, 3]\n",
    "two-stars-nested-first": "(*a, *b), x = [2, 3], 1\n",
    "two-stars-for": "for *a, *b in [[1, 2]]:\n    pass\n",
    "two-stars-for-nested": "for x, (*a, b, *c) in [[1, [2, 3]]]:\n    pass\n",
    "two-stars-chained": "p = *a, *b = [1, 2]\n",
    "two-stars-in-func": "def f():\n    *a, *b = [1]\n",
    "two-stars-in-class": "class C:\n    *a, *b = [1]\n",
    "two-stars-comp-target": "y = [0 for *a, *b in [[1]]]\n",
    "two-stars-dead": "def f():\n    return 0\n    *a, *b = [1]\n",
    "star-alone-assign": "*a = [1]\n",
    "star-alone-for": "for *a in [[1]]:\n    pass\n",
}


def _ind(s, n):
    return "\n".join("    " * n + l for l in s.split("\n"))


def fill_stmt(host, stmt):
    for n in (4, 3, 2, 1):
        host = host.replace("{S%d}" % n, _ind(stmt, n))
    return host.replace("{S}", stmt)


def parses(src):
    try:
        with warnings.catch_warnings():
            warnings.simplefilter("ignore")
            ast.parse(src)
        return True
    except SyntaxError:
        return False


def cases():
    """yield (key, source, must_reject)"""
    for hn, host in STMT_HOSTS.items():
        yield "c08:control:stmt:%s" % hn, fill_stmt(host, STMT_FILLER), False
        for cn, c in STMT_CONSTRUCTS.items():
            yield "c08:stmt:%s:%s" % (hn, cn), fill_stmt(host, c), True
    for hn, host in EXPR_HOSTS.items():
        yield "c08:control:expr:%s" % hn, host.replace("<E>", EXPR_FILLER), False
        for cn, c in EXPR_CONSTRUCTS.items():
            src = host.replace("<E>", c)
            yield "c08:expr:%s:%s" % (hn, cn), src, True
    for cn, src in ILLEGAL.items():
        yield "c08:illegal:%s" % cn, src, True


def run_shard(shard):
    r, k, cfgs = shard
    res = core.ShardResult()
    for idx, (key, src, must_reject) in enumerate(cases()):
        if idx % k != r:
            continue
        if not parses(src):
            res.c["skipped:does_not_parse_on_this_host"] += 1
            continue
        res.c["cases"] += 1
        if must_reject:
            res.c["must_reject"] += 1
        for ci in cfgs:
            res.c["executions"] += 1
            try:
                with warnings.catch_warnings():
                    warnings.simplefilter("ignore")
                    text = core.convert(src, ci)
            except core.ConversionTimeout as e:
                res.fail(key, ci, "rejects", str(e), {"source": src})
                continue
            except Exception as e:
                if not must_reject:
                    res.fail(key, ci, "rejects", "control host (harmless filler) was rejected: %s: %s" % (type(e).__name__, e), {"source": src})
                continue
            if must_reject:
                res.fail(key, ci, "misbehaves", "accepted: conversion returned %d characters instead of raising" % len(text), {"source": src, "output": text[:1500]})
        if must_reject and idx % 97 == 0:
            res.sample({"key": key, "source": src}, 1)
    return res


def main(tier, seed, collect=None):
    t0 = time.time()
    k = 48
    total = core.run_shards(run_shard, [(r, k, core.ALL_CFG) for r in range(k)], seed=seed, pid=PID)
    other_hosts = core.run_on_hosts(PID, ["py310", "py311", "py313"], "quick", seed, total) if tier == "thorough" else []

    c = total.c
    cov = {
        "converter_hosts": [core.HOST] + other_hosts,
        "evaluations": c["executions"],
        "distinct_nontrivial": c["must_reject"],
        "rule": "every (host, construct) pair and every illegal placement is one case (distinct key); non-trivial = it parses on this host and "
        "must be rejected; control cases (host with a harmless filler) must convert",
        "exhaustive": True,
        "statement_hosts": len(STMT_HOSTS),
        "statement_constructs": len(STMT_CONSTRUCTS),
        "expression_hosts": len(EXPR_HOSTS),
        "expression_constructs": len(EXPR_CONSTRUCTS),
        "illegal_placements": len(ILLEGAL),
        "states": c["cases"],
        "transitions": c["executions"],
        "traces_validated_against_impl": c["executions"],
    }
    assumptions = [
        "a case exists only if ast.parse of CPython %s accepts the text; rejection = any exception from convert_code_string" % core.HOST,
        "dead positions (after a taken return/break) are positions: the property says 'at any nesting depth and position'",
    ]
    return core.finish(PID, tier, seed, LEVEL, total, cov, assumptions, t0, collect)


def replay(payload):
    src = (payload.get("extra") or {}).get("source")
    for key, s, must in cases():
        if key == payload["key"]:
            src = s
            break
    else:
        must = True
    try:
        core.convert(src, payload["cfg"] if payload.get("cfg") is not None else 2)
        print("accepted" if must else "converted (ok)")
        return 1 if must else 0
    except Exception as e:
        print("rejected: %s: %s" % (type(e).__name__, e))
        return 0 if must else 1

"""C09 - helper names never capture or clobber user identifiers (E1 matrix x E2 RNG exploration).

Matrix : risky identifier {_, __, k, v, self, it, itertools, importlib, the reserved-looking
         __ol_iter_wrapper is NOT included (reserved prefix), and every builtin the generated code
         calls - read from the generated ASTs at run time} x role {global, local, parameter, loop
         target, function name, class name, class attribute, import alias, nonlocal, comprehension
         target, lambda parameter, method name} x feature that introduces helpers {while, while+break,
         for+break, for-else, class, class with decorator and metaclass, import, dotted import,
         from-import, destructuring, augmented subscript/attribute, chained wrapper, global store,
         nonlocal dict, return flag, slice store, walrus on shared name} x 8 option combinations.
RNG(E2): random.choices is replaced (from the harness) by a scheduler-driven source: the answer for
         each draw is "fresh" or "equal to an earlier draw"; for a pool of programs with several
         temporaries every pattern with <= 2 forced equalities (quick, 2 configurations) / <= 4 for
         programs with <= 7 draws, else <= 2, all 8 configurations (thorough) is explored; a forced
         equality makes the converter redraw, so the answer tree is infinite without such a bound.
Oracle : C01's oracle against CPython running the same program; under any RNG answers the output
         equals the collision-free output up to consistent renaming and behaves like the source.
"""
import ast
import builtins
import itertools
import random
import time

from .. import core, e2, observe, progcheck

PID = "C09"
LEVEL = "model_checking"

STATIC_IDS = ["_", "__", "k", "v", "self", "it", "itertools", "importlib", "cls", "x", "args", "i", "q", "done_", "_private", "a1", "__class__"]
STATIC_BUILTINS = ["type", "setattr", "hasattr", "iter", "next", "slice", "tuple", "list", "globals", "locals", "__import__", "classmethod", "staticmethod"]

FEATURES = {
    "while": "n = 0\nwhile n < 2:\n    n += 1\n    print(n, {USE})\n",
    "while-break": "n = 0\nwhile True:\n    n += 1\n    if n > 2:\n        break\n    print(n, {USE})\nelse:\n    print('no')\n",
    "while-test": "n = 0\nwhile {USE} and n < 2:\n    n += 1\nprint(n)\n",
    "for-break": "for n in range(5):\n    if n > 1:\n        break\n    print(n, {USE})\n",
    "for-else": "for n in [1, 2]:\n    print(n, {USE})\nelse:\n    print('else', {USE})\n",
    "class": "class C:\n    a = 1\n    b = {USE}\n    def m(self):\n        return {USE}\nprint(C.a, C.b, C().m())\n",
    "class-meta-deco": "class M(type):\n    pass\ndef d(c):\n    return c\n@d\nclass C(metaclass=M):\n    b = {USE}\nprint(C.b, type(C).__name__)\n",
    "class-super": "class B:\n    def m(self):\n        return 'B'\nclass C(B):\n    def m(self):\n        return super().m() + str({USE})\nprint(C().m())\n",
    "import": "import os.path as op\nprint(op.sep, {USE})\n",
    "import-dotted": "import os.path\nprint(os.path.sep, {USE})\n",
    "from-import": "from os.path import sep\nprint(sep, {USE})\n",
    "destructure": "a, *b = [1, 2, {USE}]\n(c, d), e = (3, 4), 5\nprint(a, b, c, d, e)\n",
    "aug-sub": "d = [1, 2]\nd[0] += 1\nd[0:1] += [{USE}]\nprint(d)\n",
    "aug-attr": "class O:\n    pass\no = O()\no.z = [1]\no.z += [{USE}]\nprint(o.z)\n",
    "slice-store": "d = [1, 2, 3]\nd[0:2] = [{USE}]\nprint(d)\n",
    "tuple-slice-store": "class G:\n    def __setitem__(s, k, v):\n        print('set', k, v)\n    def __getitem__(s, k):\n        return 1\ng = G()\ng[1:3, 0] = {USE}\ng[0, ::2] += 1\n",
    "ifexp-tail": "t = 1\nr = {USE} if t else 0\nq = 0 if {USE} else {USE}\nprint(r, q)\n",
    "cond-tail": "t = 0\nn = 0\nwhile n < 1 and {USE}:\n    n += 1\nif t or {USE}:\n    print(n)\nelse:\n    print('e')\n",
    "chain3": "print(1)\nprint({USE})\nprint(3)\n",
    "global-store": "def f():\n    global g\n    g = {USE}\nf()\nprint(g)\n",
    "nonlocal": "def f():\n    c = 0\n    def h():\n        nonlocal c\n        c += 1\n        return {USE}\n    return (h(), c)\nprint(f())\n",
    "return-flag": "def f(a):\n    for z in range(2):\n        if a:\n            return {USE}\n    return 0\nprint(f(1), f(0))\n",
    "walrus-shared": "def f():\n    c = 0\n    def h():\n        return c\n    print((c := 5), h(), {USE})\nf()\n",
    "class-implicit-wrappers": "class C:\n    def __new__(cls, *a):\n        return object.__new__(cls)\n    def __init_subclass__(cls, **k):\n        cls.seen = {USE}\n    def __class_getitem__(cls, i):\n        return (i, {USE})\nclass D(C):\n    pass\nprint(type(C()).__name__, D.seen, C[1])\n",
    "short-if": "t = 1\nif t:\n    print({USE})\nelse:\n    print(0)\n",
}
ROLES = {
    "global": ("{N} = 'G'\n", "{N}"),
    "param": ("def user({N}):\n    return {N}\n", "user('P')"),
    "local": ("def user():\n    {N} = 'L'\n    return {N}\n", "user()"),
    "funcname": ("def {N}():\n    return 'F'\n", "{N}()"),
    "classname": ("class {N}:\n    tag = 'C'\n", "{N}.tag"),
    # the identifier names a class whose body uses private names: the mangled spelling is derived from the class name
    "classname-private": ("class {N}:\n    __p = 'CP'\n    def get(self, *, __kw='K'):\n        self.__q = __kw\n        return self.__p + self.__q\n", "{N}().get() + str(sorted(k for k in vars({N}) if k.endswith('__p')))"),
    "classattr": ("class U:\n    {N} = 'A'\n    w = {N}\n", "U.{N} + U.w"),
    "looptarget": ("for {N} in ['T']:\n    pass\n", "{N}"),
    "alias": ("import math as {N}\n", "{N}.__name__"),
    "fromalias": ("from math import pi as {N}\n", "int({N})"),
    "multialias": ("import os, math as {N}\nfrom os import sep, path as {N}2\n", "{N}.__name__"),
    "nonlocal": ("def user():\n    {N} = 'N0'\n    def inner():\n        nonlocal {N}\n        {N} = {N} + '1'\n        return {N}\n    return inner() + {N}\n", "user()"),
    "comptarget": ("", "[{N} for {N} in 'ab']"),
    "lambdaparam": ("", "(lambda {N}: {N})('LP')"),
    "methodname": ("class U:\n    def {N}(self):\n        return 'M'\n", "U().{N}()"),
}
# roles x features in which the identifier is also used INSIDE the feature's scope (function-local use)
LOCAL_FEATURES = {
    "local-while": "def user({N}):\n    n = 0\n    while n < 2:\n        n += 1\n        print(n, {N})\n    return {N}\nprint(user('LW'))\n",
    "local-while-break": "def user():\n    {N} = 'LB'\n    n = 0\n    while True:\n        n += 1\n        if n > 1:\n            break\n        print({N})\n    return {N}\nprint(user())\n",
    "local-for-break": "def user({N}='LF'):\n    for n in range(3):\n        if n:\n            break\n        print({N})\n    return {N}\nprint(user())\n",
    "local-import": "def user({N}='LI'):\n    import os.path as op\n    from os import sep\n    return op.sep, sep, {N}\nprint(user())\n",
    "local-class": "def user({N}='LC'):\n    class C:\n        b = {N}\n        def m(this):\n            return {N}\n    return C.b, C().m()\nprint(user())\n",
    "local-destructure": "def user({N}='LD'):\n    a, *b = [1, {N}]\n    return a, b\nprint(user())\n",
    "local-aug": "def user({N}='LA'):\n    d = [[1]]\n    d[0] += [{N}]\n    return d\nprint(user())\n",
    "class-while": "class U:\n    {N} = 'CW'\n    n = 0\n    while n < 2:\n        n += 1\n    r = {N}\nprint(U.r, U.n)\n",
    "class-import": "class U:\n    {N} = 'CI'\n    import os.path as op\n    r = {N}, op.sep\nprint(U.r)\n",
    "class-implicit-wrappers": "class U:\n    {N} = 'CX'\n    def __new__(cls, *a):\n        return object.__new__(cls)\n    def __init_subclass__(cls, **k):\n        cls.seen = 1\n    def __class_getitem__(cls, i):\n        return i\n    r = {N}\nclass D(U):\n    pass\nprint(type(U()).__name__, D.seen, U[1], U.r)\n",
    "class-nested-class": "class U:\n    {N} = 'CN'\n    class V:\n        z = 1\n    r = {N}, V.z\nprint(U.r)\n",
}


def lowering_builtins():
    """builtins the generated code calls by bare name, read from generated ASTs"""
    found = set()
    note = None
    pool = [f.replace("{USE}", "0") for f in FEATURES.values()] + [
        "def f():\n    pass\nclass K:\n    def __init_subclass__(cls):\n        pass\n    def __new__(cls):\n        return 1\n",
    ]
    for src in pool:
        try:
            text = core.convert(src, 0)
            user = {n.id for n in ast.walk(ast.parse(src)) if isinstance(n, ast.Name)}
            for n in ast.walk(ast.parse(text, mode="eval")):
                if isinstance(n, ast.Name) and isinstance(n.ctx, ast.Load) and n.id in vars(builtins) and n.id not in user:
                    found.add(n.id)
        except Exception as e:
            note = "could not read the generated ASTs (%s): static list used" % type(e).__name__
    return sorted(found | set(STATIC_BUILTINS)), note


def matrix():
    bi, _ = lowering_builtins()
    ids = STATIC_IDS + [b for b in bi if b not in STATIC_IDS]
    for N in ids:
        for fn, ft in FEATURES.items():
            for rn, (pre, use) in ROLES.items():
                yield "c09:matrix:%s:%s:%s" % (N, rn, fn), pre.replace("{N}", N) + ft.replace("{USE}", use.replace("{N}", N))
        for fn, ft in LOCAL_FEATURES.items():
            yield "c09:local:%s:%s" % (N, fn), ft.replace("{N}", N)


# --------------------------------------------------------------------------- RNG exploration
RNG_POOL = {
    "nested-while-break": "i = 0\nwhile i < 3:\n    k = 0\n    while k < 3:\n        k += 1\n        if k == 2:\n            break\n        k += 0\n    i += 1\n    if i == 2:\n        break\n    i += 0\nprint(i, k)\n",
    "nested-for-break": "for j in range(3):\n    for m in range(3):\n        if m:\n            break\n        m += 0\n    if j:\n        break\n    j += 0\nprint(j, m)\n",
    "nested-unpack": "(a, b), (c, d) = (1, 2), (3, 4)\nprint(a, b, c, d)\n",
    "two-funcs-return": "def f(a):\n    if a:\n        return 1\n    return 2\ndef g(a):\n    for z in range(2):\n        if a:\n            return 3\n    return 4\nprint(f(0), f(1), g(0), g(1))\n",
    "nested-nonlocal": "def f():\n    x = 1\n    def g():\n        y = 2\n        def h():\n            nonlocal x, y\n            x += 1\n            y += 1\n            return x + y\n        return h() + y\n    return g() + x\nprint(f())\n",
    "nested-class": "class A:\n    p = 1\n    class B:\n        q = 2\n    r = B.q + p\nprint(A.r, A.B.q)\n",
    "two-aug": "d = [1, 2]\ne = [3, 4]\nd[0] += e[1]\ne[d[1] - 2] *= d[0]\nprint(d, e)\n",
    "two-from-imports": "from os import sep\nfrom os.path import sep as s2\nprint(sep == s2)\n",
    "class-decorators": "def d1(c):\n    c.a = 1\n    return c\ndef d2(c):\n    c.b = 2\n    return c\n@d1\n@d2\nclass K:\n    pass\nprint(K.a, K.b)\n",
    "for-in-while": "n = 0\nwhile n < 2:\n    n += 1\n    for t in range(3):\n        if t == n:\n            break\n    else:\n        continue\n    print(n, t)\n",
    "aug-attr-chain": "class O:\n    pass\no = O()\no.p = O()\no.p.v = 1\no.p.v += 2\no.p.v *= 3\nprint(o.p.v)\n",
    "meta-header": "class M(type):\n    pass\nclass B:\n    def __init_subclass__(cls, **kw):\n        cls.kw = kw\nclass K(B, t=1, metaclass=M, u=2):\n    pass\nprint(K.kw, type(K).__name__)\n",
}


class RngEnv:
    """scheduler-driven replacement of random.choices (harness-side, no repo hook)"""

    def __init__(self, env):
        self.env = env
        self.values = []  # distinct values handed out, in order of first use
        self.real = random.choices

    def choices(self, population, *a, **kw):
        n = len(self.values)
        c = self.env.choose(n + 1, ("draw", len(self.env.points)))
        if c == 0 or c > n:
            r = self.real(population, *a, **kw)
            while "".join(r) in {"".join(v) for v in self.values}:
                r = self.real(population, *a, **kw)
            self.values.append(list(r))
            return list(r)
        return list(self.values[c - 1])


def count_draws(src):
    n = [0]
    real = random.choices

    def counting(*a, **k):
        n[0] += 1
        return real(*a, **k)

    random.choices = counting
    try:
        core.convert(src, 0)
    finally:
        random.choices = real
    return n[0]


def rng_explore(res, name, src, cfgs, max_dev):
    code = compile(src, "<s>", "exec")
    ref, _ = observe.run(code, "exec")
    if ref.outcome[0] != "ok":
        res.c["skipped:reference_raises"] += 1
        return
    for ci in cfgs:
        base = core.norm_ol(core.convert(src, ci))

        def run_ref(prefix):
            env = e2.Env(prefix, budget=200)
            rng = RngEnv(env)
            saved = random.choices
            random.choices = rng.choices
            try:
                try:
                    text = core.convert(src, ci)
                    status = ("ok", text)
                except e2.Horizon:
                    status = ("horizon", None)
                except Exception as e:
                    status = ("raised", "%s: %s" % (type(e).__name__, e))
            finally:
                random.choices = saved
            return status, env

        def on_schedule(status, env, full):
            res.c["rng_schedules"] += 1
            key = "c09:rng:%s:%s" % (name, "".join(map(str, full)))
            if status[0] == "horizon":
                res.fail(key, ci, "rejects", "conversion did not finish within 200 random draws under RNG answers %r" % (full,), {"source": src, "schedule": full})
                return
            if status[0] == "raised":
                res.fail(key, ci, "rejects", "conversion raised under RNG answers %r: %s" % (full, status[1]), {"source": src, "schedule": full})
                return
            text = status[1]
            if core.norm_ol(text) != base:
                res.fail(key, ci, "misbehaves", "under RNG answers %r two temporaries share a name (output differs from the collision-free one beyond renaming)" % (full,), {"source": src, "schedule": full, "output": text[:2000]})
                return
            if any(full):
                got, _ = observe.run(text, "eval")
                d = observe.compare(ref, got)
                if d:
                    res.fail(key, ci, "misbehaves", "under RNG answers %r: %s" % (full, d), {"source": src, "schedule": full, "output": text[:2000]})

        nodes, trans, execs, capped = e2.explore(run_ref, on_schedule, max_dev=max_dev)
        res.c["choice_nodes"] += nodes + 1
        res.c["transitions"] += trans
        res.c["rng_conversions"] += execs
    res.sample({"key": "c09:rng:" + name, "source": src}, 1)


def run_shard(shard):
    res = core.ShardResult()
    if shard[0] == "matrix":
        _, r, k, cfgs = shard
        for idx, (key, src) in enumerate(matrix()):
            if idx % k != r:
                continue
            res.c["programs_generated"] += 1
            n = progcheck.check_program(res, key, src, cfgs)
            if n == 0 and idx % 997 == 0:
                res.sample({"key": key, "source": src})
    else:
        _, name, cfgs, max_dev = shard
        rng_explore(res, name, RNG_POOL[name], cfgs, max_dev)
    return res


def main(tier, seed, collect=None):
    t0 = time.time()
    k = 96
    cfgs = core.ALL_CFG
    sh = [("matrix", r, k, cfgs) for r in range(k)]
    for name in RNG_POOL:
        nd = count_draws(RNG_POOL[name])
        for ci in ([2, 5] if tier == "quick" else core.ALL_CFG):
            # thorough: <= 4 forced equalities when the program draws <= 7 names, else <= 2 (a forced equality makes the converter redraw, so the tree is infinite without a bound)
            sh.append(("rng", name, [ci], 2 if tier == "quick" else (4 if nd <= 7 else 2)))
    total = core.run_shards(run_shard, sh, seed=seed, pid=PID)
    bi, note = lowering_builtins()
    if note:
        total.notes[note] += 1
    c = total.c
    cov = {
        "states": c["choice_nodes"] + c["programs_generated"],
        "transitions": c["transitions"] + c["executions"],
        "traces_validated_against_impl": c["executions"] + c["rng_schedules"],
        "evaluations": c["executions"] + c["rng_schedules"],
        "distinct_nontrivial": c["programs_in_scope"],
        "rule": "matrix: every (identifier, role, feature) cell is one program (distinct key), non-trivial when CPython runs it; "
        "RNG: every complete schedule of draw answers (fresh / equal to an earlier value) within the deviation bound is one conversion",
        "exhaustive": True,
        "identifiers": STATIC_IDS + [b for b in bi if b not in STATIC_IDS],
        "builtins_called_by_generated_code": bi,
        "roles": list(ROLES),
        "features": list(FEATURES) + list(LOCAL_FEATURES),
        "rng_pool": list(RNG_POOL),
        "rng_bound": "<= 2 forced equalities" if tier == "quick" else "<= 4 forced equalities for programs with <= 7 draws, <= 2 otherwise, all 8 configurations",
        "rng_schedules": c["rng_schedules"],
    }
    assumptions = [
        "CPython %s running the same program (with the risky identifier) is the reference" % core.HOST,
        "the random source is owned by replacing random.choices from the harness; a forced equality is one legitimate RNG outcome",
    ]
    return core.finish(PID, tier, seed, LEVEL, total, cov, assumptions, t0, collect)


def replay(payload):
    ex = payload.get("extra") or {}
    src = ex.get("source")
    if src is None:
        print("no source in replay file")
        return 2
    res = core.ShardResult()
    if payload["key"].startswith("c09:rng:"):
        name = payload["key"].split(":")[2]
        rng_explore(res, name, src, [payload["cfg"]], None if len(ex.get("schedule", [])) < 8 else 3)
        res.fails = [f for f in res.fails if f[0] == payload["key"]]
    else:
        progcheck.check_program(res, payload["key"], src, [payload["cfg"]] if payload.get("cfg") is not None else None)
    for f in res.fails:
        print("still failing:", f[0], core.cfg_name(f[1]), f[3], f[4])
    return 1 if res.fails else 0

"""C03 - the project's own unparser round-trips every expression tree (E1, exhaustive exploration).

Families (all complete enumerations, nothing sampled):
  spine   every composition of d slots around a leaf (one slot = one child position of one node
          kind, catalogue read from the implementation's operator tables): depth <= 2 in full;
          depth 3 hazard x all x hazard (quick) / in full (thorough); depth 4 over the hazard set
  sig     all 756 lambda parameter lists (<= 2 per kind, every legal default pattern)
  call    all argument-list shapes (<= 2 positional/starred, <= 2 keyword/**), generator arguments
  cmp     all comparison chains of 1..3 operators
  slice   all subscript/slice shapes (every subset of bounds, tuples of slices, starred)
  comp    4 comprehension kinds x 1..2 clauses x 0..2 conditions x async
  dict    all item sequences <= 3 over {k:v, **m}
  corpus  every maximal expression of every module of the host's standard library
  emitted every tree convert() returns for a pool of programs (shared node objects occur here)
Oracle: parse(expr_unparse(e)) == e after ctx/kind/negative-literal normalisation, text has no line
break. Scope gate: some source text must parse to e (witness: ast.unparse round trip).
"""
import ast
import glob
import itertools
import os
import sys
import time
import warnings

from .. import core
from ..exprspace import *  # noqa
from .. import exprspace as X

PID = "C03"
LEVEL = "exploration"

HAZARD = [
    "Attribute.value", "Subscript.value", "Subscript.slice", "Slice.lower", "Call.func", "Call.onlyarg",
    "Call.arg0of2", "Call.star", "Call.kwvalue", "FormattedValue.value", "FormattedValue.spec",
    "FormattedValue.value:spec", "FormattedValue.value!r", "BinOp.Pow.left", "BinOp.Pow.right", "BinOp.Sub.right",
    "BinOp.Mult.left", "UnaryOp.USub", "UnaryOp.Not", "Compare.In.left", "Compare.NotIn.right", "BoolOp.And.0", "BoolOp.Or.2",
    "Lambda.body", "Lambda.default", "IfExp.body", "IfExp.test", "IfExp.orelse", "NamedExpr.value",
    "GeneratorExp.elt", "ListComp.iter", "ListComp.if", "Yield.value", "Await.value", "Dict.value",
    "Dict.starstar", "Tuple.elt1", "Set.elt1", "SetComp.elt", "ListComp.elt", "DictComp.value", "GeneratorExp.iter", "Slice.upper",
]
LEAF_REPS = ["Name", "Name_", "Int", "Str", "EmptyDict", "Set1", "FStrField", "Yield0", "Complex"]

_S = None


def space():
    global _S
    if _S is None:
        slots, note = X.build_slots()
        _S = (slots, X.build_leaves(), note)
    return _S


def unparser():
    return core.ol().expr_unparse


def record(res, key, e, r):
    if r == "ok":
        res.c["in_scope"] += 1
    elif r == "skip":
        res.c["out_of_scope_no_text_parses_to_it"] += 1
    elif r == "refused-backslash":
        res.c["documented_refusal_backslash_below_3.12"] += 1
    else:
        res.c["in_scope"] += 1
        try:
            ref = ast.unparse(e)
        except Exception:
            ref = None
        res.fail(key, None, r[0], r[1], {"text": r[2], "ast_unparse_text": ref, "tree": X.ndump(e)[:2000]})


# --------------------------------------------------------------------------- spine family
def spine_shard(res, depth, outer, inner_sets):
    slots, leaves, _ = space()
    byname = dict(slots)
    lv = dict(leaves)
    up = unparser()
    lo, fo = outer
    names = [inner_sets[i] for i in range(depth - 1)]
    leafnames = inner_sets[-1]
    for combo in itertools.product(*names) if names else [()]:
        fns = [byname[c] for c in combo]
        for ln in leafnames:
            e = lv[ln]()
            for f in reversed(fns):
                e = f(e)
            e = fo(e)
            res.c["trees"] += 1
            r = X.judge(e, up)
            if r != "ok" or res.c["trees"] % 50000 == 1:
                key = "c03:spine:" + ">".join((lo,) + combo + (ln,))
                if r == "ok":
                    res.sample({"key": key, "text": up(e)})
                record(res, key, e, r)
            else:
                res.c["in_scope"] += 1


# --------------------------------------------------------------------------- shape families
def sig_lists():
    """all parameter lists with <= 2 parameters per kind and every legal default pattern"""
    out = []
    for npo in range(3):
        for na in range(3):
            for nd in range(npo + na + 1):  # defaults are a suffix of posonly+args
                for var in (None, "va", "bare"):
                    for nk in range(3):
                        if var == "bare" and nk == 0:
                            continue
                        for kwd in itertools.product((0, 1), repeat=nk):
                            if nk and var is None:
                                continue  # keyword-only needs * or *args
                            for kw in (None, "kw"):
                                out.append((npo, na, nd, var, nk, kwd, kw))
    return out


def mk_arguments(sig, default=lambda i: X.N("d%d" % i)):
    npo, na, nd, var, nk, kwd, kw = sig
    return arguments(
        posonlyargs=[arg(arg="p%d" % i) for i in range(npo)],
        args=[arg(arg="a%d" % i) for i in range(na)],
        vararg=arg(arg="va") if var == "va" else None,
        kwonlyargs=[arg(arg="k%d" % i) for i in range(nk)],
        kw_defaults=[default(10 + i) if kwd[i] else None for i in range(nk)],
        kwarg=arg(arg="kw") if kw else None,
        defaults=[default(i) for i in range(nd)],
    )


def shapes(which):
    """yield (key, tree) for the small exhaustive shape families"""
    if which == "sig":
        for sig in sig_lists():
            yield "c03:sig:%r" % (sig,), Lambda(args=mk_arguments(sig), body=X.N("r"))
            if sig[2] or any(sig[5]):
                yield "c03:sig-lambda-default:%r" % (sig,), Lambda(
                    args=mk_arguments(sig, lambda i: Lambda(args=X.A0(), body=X.N("z"))), body=X.N("r")
                )
    elif which == "call":
        pos = {
            "n": lambda: X.N("x"),
            "s": lambda: Starred(value=X.N("y"), ctx=Load()),
            "g": lambda: GeneratorExp(elt=X.N("e"), generators=[X.comp(X.St(), X.N("it"))]),
            "w": lambda: NamedExpr(target=X.St("w"), value=X.N("x")),
            "l": lambda: Lambda(args=X.A0(), body=X.N("x")),
            "t": lambda: Tuple(elts=[X.N("x"), X.N("y")], ctx=Load()),
            "y": lambda: Yield(value=X.N("x")),
        }
        kws = {
            "k": lambda: keyword(arg="k", value=X.N("v")),
            "d": lambda: keyword(arg=None, value=X.N("m")),
            "kg": lambda: keyword(arg="k", value=GeneratorExp(elt=X.N("e"), generators=[X.comp(X.St(), X.N("it"))])),
            "kw": lambda: keyword(arg="k", value=NamedExpr(target=X.St("w"), value=X.N("x"))),
            "kl": lambda: keyword(arg="k", value=Lambda(args=X.A0(), body=X.N("x"))),
            "ki": lambda: keyword(arg="k", value=IfExp(test=X.N("p"), body=X.N("x"), orelse=X.N("q"))),
        }
        for na in range(3):
            for ps in itertools.product(pos, repeat=na):
                for nk in range(3):
                    for ks in itertools.product(kws, repeat=nk):
                        yield "c03:call:%s|%s" % (",".join(ps), ",".join(ks)), Call(
                            func=X.N("f"), args=[pos[p]() for p in ps], keywords=[kws[k]() for k in ks]
                        )
    elif which == "cmp":
        _, _, _, cmpops, _ = X.operator_tables()
        for n in (1, 2, 3):
            for ops in itertools.product(cmpops, repeat=n):
                yield "c03:cmp:" + ",".join(o.__name__ for o in ops), Compare(
                    left=X.N("a"), ops=[o() for o in ops], comparators=[X.N("b%d" % i) for i in range(n)]
                )
        # comparison operands that are themselves `not`/comparisons/lambdas
        for o in cmpops:
            for side in ("l", "r"):
                for inner in ("not", "cmp", "bor"):
                    c = {
                        "not": UnaryOp(op=Not(), operand=X.N("z")),
                        "cmp": Compare(left=X.N("y"), ops=[o()], comparators=[X.N("z")]),
                        "bor": BinOp(left=X.N("y"), op=BitOr(), right=X.N("z")),
                    }[inner]
                    yield "c03:cmp-operand:%s.%s.%s" % (o.__name__, side, inner), Compare(
                        left=c if side == "l" else X.N("a"), ops=[o()], comparators=[X.N("b") if side == "l" else c]
                    )
    elif which == "slice":
        def sl(mask):
            return Slice(
                lower=X.N("l") if mask & 1 else None,
                upper=X.N("u") if mask & 2 else None,
                step=X.N("z") if mask & 4 else None,
            )

        for m in range(8):
            yield "c03:slice:%d" % m, Subscript(value=X.N("s"), slice=sl(m), ctx=Load())
            yield "c03:slice-attr:%d" % m, Attribute(value=Subscript(value=X.N("s"), slice=sl(m), ctx=Load()), attr="x", ctx=Load())
        elems = {"n": lambda: X.N("i"), "c": lambda: Constant(value=0), "e": lambda: Constant(value=...), "t": lambda: Tuple(elts=[X.N("i"), X.N("j")], ctx=Load())}
        for m in range(8):
            elems["s%d" % m] = lambda m=m: sl(m)
        if sys.version_info >= (3, 11):
            elems["*"] = lambda: Starred(value=X.N("r"), ctx=Load())
        for n in (1, 2, 3):
            for es in itertools.product(elems, repeat=n):
                yield "c03:slice-tuple:" + ",".join(es), Subscript(
                    value=X.N("s"), slice=Tuple(elts=[elems[x]() for x in es], ctx=Load()), ctx=Load()
                )
    elif which == "comp":
        kinds = {
            "L": lambda g: ListComp(elt=X.N("e"), generators=g),
            "S": lambda g: SetComp(elt=X.N("e"), generators=g),
            "G": lambda g: GeneratorExp(elt=X.N("e"), generators=g),
            "D": lambda g: DictComp(key=X.N("k"), value=X.N("v"), generators=g),
        }
        targets = {
            "n": lambda: X.St("t"),
            "t": lambda: Tuple(elts=[X.St("t"), X.St("u")], ctx=Store()),
            "s": lambda: Tuple(elts=[X.St("t"), Starred(value=X.St("u"), ctx=Store())], ctx=Store()),
            "l": lambda: List(elts=[X.St("t"), X.St("u")], ctx=Store()),
            "a": lambda: Attribute(value=X.N("o"), attr="t", ctx=Store()),
            "i": lambda: Subscript(value=X.N("o"), slice=X.N("t"), ctx=Store()),
        }
        clause = []
        for tg in targets:
            for nif in range(3):
                for asy in (0, 1):
                    clause.append((tg, nif, asy))
        for kd in kinds:
            for n in (1, 2):
                for cs in itertools.product(clause, repeat=n):
                    if n == 2 and (cs[0][0] not in "nt" or cs[1][0] not in "nt"):
                        continue
                    gens = [
                        X.comp(targets[tg](), X.N("it%d" % j), [X.N("c%d%d" % (j, q)) for q in range(nif)], asy)
                        for j, (tg, nif, asy) in enumerate(cs)
                    ]
                    yield "c03:comp:%s:%r" % (kd, cs), kinds[kd](gens)
    elif which == "dict":
        for n in range(4):
            for items in itertools.product("kd", repeat=n):
                yield "c03:dict:" + "".join(items), Dict(
                    keys=[X.N("k%d" % i) if it == "k" else None for i, it in enumerate(items)],
                    values=[X.N("v%d" % i) for i in range(n)],
                )
    elif which == "boolassoc":
        # explicit nesting of the same boolean / binary operator on either side (associativity)
        binops, _, boolops, _, _ = X.operator_tables()
        for op in binops:
            for op2 in binops:
                yield "c03:assoc:%s(%s)l" % (op.__name__, op2.__name__), BinOp(left=BinOp(left=X.N("a"), op=op2(), right=X.N("b")), op=op(), right=X.N("c"))
                yield "c03:assoc:%s(%s)r" % (op.__name__, op2.__name__), BinOp(left=X.N("a"), op=op(), right=BinOp(left=X.N("b"), op=op2(), right=X.N("c")))
                for u in (USub, Invert, Not):
                    yield "c03:assoc:%s(%s)lu%s" % (op.__name__, op2.__name__, u.__name__), BinOp(
                        left=UnaryOp(op=u(), operand=BinOp(left=X.N("a"), op=op2(), right=X.N("b"))), op=op(), right=X.N("c")
                    )
                    yield "c03:assoc:%s(%s)ru%s" % (op.__name__, op2.__name__, u.__name__), BinOp(
                        left=X.N("a"), op=op(), right=UnaryOp(op=u(), operand=BinOp(left=X.N("b"), op=op2(), right=X.N("c")))
                    )
        for op in boolops:
            for op2 in boolops:
                for pos in range(2):
                    vals = [X.N("a"), X.N("b")]
                    vals[pos] = BoolOp(op=op2(), values=[X.N("x"), X.N("y")])
                    yield "c03:assoc:%s(%s)%d" % (op.__name__, op2.__name__, pos), BoolOp(op=op(), values=vals)


SHAPES = ["sig", "call", "cmp", "slice", "comp", "dict", "boolassoc"]


# --------------------------------------------------------------------------- corpus family
def corpus_files():
    root = os.path.dirname(os.__file__)
    files = sorted(glob.glob(root + "/*.py")) + sorted(glob.glob(root + "/*/*.py"))
    return [f for f in files if "/site-packages/" not in f and "/test/" not in f and "/lib2to3/tests" not in f]


def maximal_exprs(tree):
    """every expression that is a direct child of a non-expression node"""
    stack = [tree]
    while stack:
        n = stack.pop()
        for ch in ast.iter_child_nodes(n):
            if isinstance(ch, ast.expr):
                yield ch
            else:
                stack.append(ch)


def corpus_shard(res, files):
    up = unparser()
    for f in files:
        try:
            src = open(f, encoding="utf8").read()
            with warnings.catch_warnings():
                warnings.simplefilter("ignore")
                tree = ast.parse(src)
        except Exception:
            res.c["corpus_files_unreadable"] += 1
            continue
        res.c["corpus_files"] += 1
        rel = os.path.relpath(f, os.path.dirname(os.__file__))
        for i, e in enumerate(maximal_exprs(tree)):
            res.c["trees"] += 1
            # the tree came from the parser, so it is in scope by construction (no gate)
            r = X.judge(e, up, gate=False)
            if r == "ok":
                res.c["in_scope"] += 1
            else:
                record(res, "c03:corpus:%s:%d:%d" % (rel, e.lineno, e.col_offset), e, r)


# --------------------------------------------------------------------------- emitted family
EMIT_POOL = [
    "x = 10\nx -= 3 - 1\ny = 2\ny *= x + 1\nz = 7\nz //= y - 1\nprint(x, y, z)",
    "s = 'a'\nc = 1\ns += 'p' if c else 'q'\nd = {1: 2}\nd[1] **= 1 + 1\nprint(s, d)",
    "class O:\n    v = 1\no = O()\no.v -= 2 - 5\no.v <<= 1 | 2\nprint(o.v)",
    "a, (b, *c), d = 1, (2, 3, 4), 5\nprint(a, b, c, d)",
    "def f(a, /, b=1, *c, d, e=2, **g):\n    return (a, b, c, d, e, g)\nprint(f(1, d=3))",
    "def outer(p):\n    q = p + 1\n    def inner():\n        nonlocal q\n        q += p\n        return q\n    return inner()\nprint(outer(2))",
    "class A:\n    n = 3\n    def m(self):\n        return super().__init__() or self.n\nprint(A().m())",
    "i = 0\nwhile i < 5:\n    i += 1\n    if i == 2:\n        continue\n    if i == 4:\n        break\n    print(i)\nelse:\n    print('e')",
    "for a, b in [(1, 2), (3, 4)]:\n    if a > 1:\n        break\n    print(a + b if a else -b)\nelse:\n    print('no')",
    "import os.path as p, sys\nfrom os import sep as s, path\nprint(p is path, s == os.sep if False else True)",
    "def g(n):\n    for i in range(n):\n        while True:\n            if i % 2:\n                return i\n            break\n    return -1\nprint(g(3))",
    "r = [x * y for x in range(3) for y in range(2) if x if y]\nm = {k: v for k, v in zip('ab', (1, 2))}\nt = (lambda q, *w, z=3, **k: (q, w, z, k))(1, 2)\nprint(r, m, t, f'{r!r:>{10}} {m}')",
    "x = [1, 2, 3]\nx[0:2] = [9]\nx[-1] += 5\nx[::2] = [0, 0]\nprint(x)",
    "g = 1\ndef f():\n    global g\n    g = g + 1\n    g += (yes := 2)\n    return yes\nprint(f(), g)",
    "if (n := 3) > 2 and not n & 1 == 0:\n    print(n ** -1, -n ** 2, (-n) ** 2, not n, ~n + 1)\nelif n:\n    pass\nelse:\n    print(0)",
]


def emitted_programs():
    for i, s in enumerate(EMIT_POOL):
        yield "pool%d" % i, s
    tc = os.path.join(core.REPO, "oneliner_tests", "test_cases")
    for f in sorted(glob.glob(tc + "/*.py")):
        yield "testcase:" + os.path.basename(f), open(f, encoding="utf8").read()


def emitted_shard(res, progs):
    import symtable

    ol = core.ol()
    up = unparser()
    try:
        from oneliner.convert import convert as _convert
    except Exception:
        _convert = None
        res.notes["internal convert() not importable: emitted trees taken from ast.parse of the ast.unparse text"] += 1
    for name, src in progs:
        for ci in (4, 5, 6, 7):  # the four structural option combinations (unparser does not change the tree)
            try:
                cfg = core.mk_cfg(ci)
                if _convert is not None:
                    tree = _convert(ast.parse(src), symtable.symtable(src, "<s>", "exec"), cfg)
                else:
                    tree = ast.parse(core.convert(src, ci - 4), mode="eval").body
            except Exception as e:
                res.c["emitted_conversion_raised"] += 1
                continue
            res.c["trees"] += 1
            ids = {}
            shared = 0
            for n in ast.walk(tree):
                if isinstance(n, ast.expr) and not isinstance(n, (Name, Constant)):
                    ids[id(n)] = ids.get(id(n), 0) + 1
            shared = sum(1 for v in ids.values() if v > 1)
            if shared:
                res.c["emitted_trees_with_shared_node_objects"] += 1
            key = "c03:emitted:%s:%s" % (name, "/".join(core.CONFIGS[ci][1:]))
            r = X.judge(tree, up)
            record(res, key, tree, r)
            if r == "ok":
                res.sample({"key": key, "text": up(tree)[:300]}, 1)


# --------------------------------------------------------------------------- driver
def run_shard(shard):
    res = core.ShardResult()
    kind = shard[0]
    if kind == "spine":
        _, depth, oi, sets = shard
        slots, _, _ = space()
        spine_shard(res, depth, slots[oi], sets)
    elif kind == "shape":
        up = unparser()
        for key, e in shapes(shard[1]):
            res.c["trees"] += 1
            r = X.judge(e, up)
            record(res, key, e, r)
            if r == "ok":
                res.sample({"key": key, "text": up(e)}, 1)
    elif kind == "corpus":
        corpus_shard(res, shard[1])
    elif kind == "emitted":
        emitted_shard(res, shard[1])
    return res


def shards(tier):
    slots, leaves, note = space()
    names = [s[0] for s in slots]
    lnames = [l[0] for l in leaves]
    hz = [h for h in HAZARD if h in names]
    hzi = [names.index(h) for h in hz]
    out = []
    for oi in range(len(slots)):
        out.append(("spine", 1, oi, [lnames]))
        out.append(("spine", 2, oi, [names, lnames]))
    if tier == "quick":
        for oi in hzi:
            out.append(("spine", 3, oi, [names, hz, LEAF_REPS]))
    else:
        for oi in range(len(slots)):
            out.append(("spine", 3, oi, [names, names, lnames]))
        for oi in hzi:
            for mid in hz:
                out.append(("spine", 4, oi, [[mid], hz, hz, LEAF_REPS]))
    for s in SHAPES:
        out.append(("shape", s))
    files = corpus_files()
    for ch in core.chunked(files, 12):
        out.append(("corpus", ch))
    progs = list(emitted_programs())
    for ch in core.chunked(progs, 4):
        out.append(("emitted", ch))
    return out


def main(tier, seed, collect=None):
    t0 = time.time()
    slots, leaves, note = space()
    sh = shards(tier)
    # biggest shards first so the pool drains evenly
    sh.sort(key=lambda s: -(s[1] if s[0] == "spine" else 0))
    total = core.run_shards(run_shard, sh, seed=seed, pid=PID)
    other_hosts = core.run_on_hosts(PID, ["py310", "py311", "py313"], "quick", seed, total) if tier == "thorough" else []

    c = total.c
    if note:
        total.notes[note] += 1
    cov = {
        "converter_hosts": [core.HOST] + other_hosts,
        "evaluations": c["trees"],
        "distinct_nontrivial": c["in_scope"],
        "rule": "each case is a distinct expression tree (distinct derivation key); it is non-trivial when it is in scope, "
        "i.e. some source text parses to it (witnessed by an ast.unparse round trip; corpus trees are in scope by construction)",
        "exhaustive": True,
        "slots": len(slots),
        "leaves": len(leaves),
        "spine_depths": "<=2 full; 3: hazard x all x hazard x leaf-reps" if tier == "quick" else "<=3 full; 4: hazard^4 x leaf-reps",
        "hazard_slots": [h for h in HAZARD if h in dict(slots)],
        "shape_families": SHAPES,
        "corpus_files": c["corpus_files"],
        "out_of_scope": c["out_of_scope_no_text_parses_to_it"],
        "states": c["trees"],
        "transitions": c["trees"],
        "traces_validated_against_impl": c["in_scope"],
    }
    assumptions = [
        "ast.parse of CPython %s defines which tree a text denotes" % core.HOST,
        "a built tree is in scope only if ast.unparse can witness that some text parses to it; unwitnessed trees are counted, not judged",
        "comparison ignores ctx, Constant.kind, positions and folds -<number>",
    ]
    return core.finish(PID, tier, seed, LEVEL, total, cov, assumptions, t0, collect)


def replay(payload):
    key = payload["key"]
    up = unparser()
    parts = key.split(":", 2)
    fam = parts[1]
    e = None
    if fam == "spine":
        slots, leaves, _ = space()
        byname, lv = dict(slots), dict(leaves)
        labels = parts[2].split(">")
        e = lv[labels[-1]]()
        for l in reversed(labels[:-1]):
            e = byname[l](e)
    elif fam in ("corpus", "emitted"):
        res = core.ShardResult()
        if fam == "corpus":
            rel = parts[2].rsplit(":", 2)[0]
            corpus_shard(res, [os.path.join(os.path.dirname(os.__file__), rel)])
        else:
            emitted_shard(res, [p for p in emitted_programs() if ("c03:emitted:%s:" % p[0]) in key])
        hit = [f for f in res.fails if f[0] == key]
        for f in hit:
            print("still failing:", f[0], f[3], f[4], (f[5] or {}).get("text"))
        return 1 if hit else 0
    else:
        for s in SHAPES:
            for k, t in shapes(s):
                if k == key:
                    e = t
    if e is None:
        print("cannot rebuild", key)
        return 2
    r = X.judge(e, up)
    print(key, "->", r)
    return 0 if r in ("ok", "skip", "refused-backslash") else 1

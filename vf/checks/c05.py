"""C05 - break/continue/return/else lowered with exact control flow (E1 x E2, model checking).

Alphabet : control-flow skeletons  Block ::= Stmt{1..3};  Stmt ::= m | break | continue |
           return v | return | <interrupt>+dead marker | if/while/for Block [else Block]
           placed in 8 frames (module, function, class body, method, function nested in a loop,
           class nested in a loop, block inside a function's loop, block inside a while/else).
Bound    : skeleton size (statement nodes) per tier; every environment schedule (condition
           outcomes, iterator lengths 0..2) with a per-site `while` budget of 2 and 400 probe calls.
Oracle   : the full ordered trace (markers, condition queries+answers, it(), iter, every next,
           returned values) of eval(converted) equals that of exec(source), for every schedule
           and each of the 8 configurations.
"""
import collections
import time

from .. import core, e2

PID = "C05"
LEVEL = "model_checking"

# frame: (template, indent of hole, in_loop, in_func)
FRAMES = {
    "module": ("{B}", 0, False, False),
    "func": ("def f():\n{B}\nm(('ret', f()))", 1, False, True),
    "class": ("class K:\n{B}", 1, False, False),
    "method": ("class K:\n    def f(self):\n{B}\nm(('ret', K().f()))", 2, False, True),
    "loopfunc": (
        "for x90 in it(90):\n    def f():\n{B}\n    m(('ret', f()))\n    if c(91):\n        break\n    m(92)\nelse:\n    m(93)",
        2,
        False,
        True,
    ),
    "loopclass": ("while c(90):\n    class K:\n{B}\n    m(91)\nelse:\n    m(92)", 2, False, False),
    "funcloop": (
        "def f():\n    for x90 in it(90):\n{B}\n        m(91)\n    else:\n        m(92)\n    m(93)\n    return v(94)\nm(('ret', f()))",
        2,
        True,
        True,
    ),
    "whileelse": ("while c(90):\n{B}\n    m(91)\nelse:\n    m(92)\nm(93)", 1, True, False),
}

SIMPLE = ("m", "p")
INTERRUPTS_LOOP = ("b", "c")
INTERRUPTS_FUNC = ("r", "R")


def stmts(size, in_loop, in_func):
    """all statements with exactly `size` nodes, simplest first"""
    if size == 1:
        yield ("m",)
        yield ("p",)
        if in_loop:
            yield ("b",)
            yield ("c",)
        if in_func:
            yield ("r",)
            yield ("R",)
        return
    if size == 2:
        # an interrupt followed by one dead marker (dropped by the lowering, never run by Python)
        if in_loop:
            yield ("b+",)
            yield ("c+",)
        if in_func:
            yield ("r+",)
    rest = size - 1
    for kind in ("i", "w", "f"):
        il = in_loop or kind != "i"
        for nb in range(1, rest + 1):
            ne = rest - nb
            for b in blocks(nb, il, in_func):
                if ne == 0:
                    yield (kind, b, ())
                else:
                    for e in blocks(ne, in_loop, in_func):
                        yield (kind, b, e)


def blocks(size, in_loop, in_func, maxlen=3):
    """all blocks (tuples of statements) with `size` nodes in total"""

    def rec(remaining, n):
        if remaining == 0:
            yield ()
            return
        if n == 0:
            return
        for s1 in range(1, remaining + 1):
            for s in stmts(s1, in_loop, in_func):
                if s[0][0] in "bcrR":
                    if remaining - s1 == 0:
                        yield (s,)
                    continue
                for tail in rec(remaining - s1, n - 1):
                    yield (s,) + tail

    yield from rec(size, maxlen)


def sexpr(block):
    out = []
    for s in block:
        if len(s) == 1:
            out.append(s[0])
        else:
            out.append("%s[%s%s]" % (s[0], sexpr(s[1]), ("|" + sexpr(s[2])) if s[2] else ""))
    return " ".join(out)


class _R:
    def __init__(self):
        self.n = 0
        self.lines = []


def render(block, ind, r):
    for s in block:
        p = "    " * ind
        r.n += 1
        i = r.n
        k = s[0]
        if k == "m":
            r.lines.append("%sm(%d)" % (p, i))
        elif k == "p":
            r.lines.append("%spass" % p)
        elif k[0] == "b":
            r.lines.append("%sbreak" % p)
        elif k[0] == "c":
            r.lines.append("%scontinue" % p)
        elif k[0] == "r":
            r.lines.append("%sreturn v(%d)" % (p, i))
        elif k == "R":
            r.lines.append("%sreturn" % p)
        else:
            if k == "i":
                r.lines.append("%sif c(%d):" % (p, i))
            elif k == "w":
                r.lines.append("%swhile c(%d):" % (p, i))
            else:
                r.lines.append("%sfor x%d in it(%d):" % (p, i, i))
            render(s[1], ind + 1, r)
            if s[2]:
                r.lines.append("%selse:" % p)
                render(s[2], ind + 1, r)
        if len(k) == 2 and k[1] == "+":
            r.n += 1
            r.lines.append("%sm(%d)" % (p, r.n))


def source(block, frame):
    tmpl, ind, _, _ = FRAMES[frame]
    r = _R()
    render(block, ind, r)
    return tmpl.replace("{B}", "\n".join(r.lines)) + "\n"


# ------------------------------------------------------------------ environment
WBUDGET = 2


def make_ns(env):
    wb = collections.Counter()

    def m(i):
        env.tick()
        env.trace.append(("m", i))

    def v(i):
        env.tick()
        env.trace.append(("v", i))
        return ("val", i)

    def c(i):
        if wb[i] >= WBUDGET:
            env.tick()
            env.trace.append(("c", i, 0, "forced"))
            return False
        # choice 0 (the default answer of a deviation-bounded exploration) is "true": the default execution enters
        # every body, so that few deviations already reach interrupts nested several levels deep
        a = 1 - env.choose(2, ("c", i))
        env.trace.append(("c", i, a))
        if a:
            wb[i] += 1
        return bool(a)

    class It:
        def __init__(s, i, n):
            s.i, s.n, s.k = i, n, 0

        def __iter__(s):
            env.trace.append(("iter", s.i))
            return s

        def __next__(s):
            env.tick()
            env.trace.append(("next", s.i, s.k))
            if s.k >= s.n:
                raise StopIteration
            s.k += 1
            return s.k

    def it(i):
        n = (1, 0, 2)[env.choose(3, ("it", i))]  # default answer: one iteration
        env.trace.append(("it", i, n))
        return It(i, n)

    return {"m": m, "v": v, "c": c, "it": it}


def run(code, mode, choices, strict=False, arities=None):
    env = e2.Env(choices, strict=strict, arities=arities)
    g = make_ns(env)
    g["__name__"] = "__main__"
    try:
        with core.time_limit(10):
            (exec if mode == "exec" else eval)(code, g)
        status = "ok"
    except e2.Horizon:
        status = "horizon"
    except e2.Divergence as d:
        status = "divergence:" + str(d)
    except core.Timeout:
        status = "timeout"
    except RecursionError:
        status = "exc:RecursionError"
    except Exception as e:
        status = "exc:%s:%s" % (type(e).__name__, core.scrub(e))
    return status, env


def check_skeleton(res, key, src, cfgs, max_dev=None):
    try:
        code_src = compile(src, "<s>", "exec")
    except SyntaxError as e:
        res.c["skeleton_rejected_by_cpython"] += 1
        return
    res.c["skeletons"] += 1
    outs = []
    for ci in cfgs:
        try:
            text = core.convert(src, ci)
        except Exception as e:
            res.fail(key, ci, "rejects", "%s: %s" % (type(e).__name__, e), {"source": src})
            continue
        why = core.is_single_line_expr(text)
        if why:
            res.fail(key, ci, "malformed", why, {"source": src, "output": text})
            continue
        outs.append((ci, compile(text, "<o>", "eval"), text))
    failed = set()
    distinct = set()

    def on_schedule(status, env, full):
        if status == "horizon":
            res.c["schedules_beyond_horizon"] += 1
            return
        if status != "ok":
            # the reference itself raised: outside the fragment (cannot happen for skeletons)
            res.c["reference_raised"] += 1
            res.notes["reference_raised:" + status[:60]] += 1
            return
        res.c["schedules"] += 1
        distinct.add(tuple(env.trace))
        for ci, code, text in outs:
            if ci in failed:
                continue
            st2, env2 = run(code, "eval", full, strict=True, arities=env.points)
            res.c["replays"] += 1
            if st2 == "ok" and env2.pos != len(full):
                st2 = "divergence: %d of %d recorded answers consumed" % (env2.pos, len(full))
            if st2 != "ok" or env2.trace != env.trace:
                failed.add(ci)
                n = 0
                while n < min(len(env.trace), len(env2.trace)) and env.trace[n] == env2.trace[n]:
                    n += 1
                res.fail(
                    key,
                    ci,
                    "misbehaves",
                    "schedule %r: status %s; traces differ at step %d: expected %r got %r"
                    % (
                        full,
                        st2,
                        n,
                        env.trace[n] if n < len(env.trace) else None,
                        env2.trace[n] if n < len(env2.trace) else None,
                    ),
                    {
                        "source": src,
                        "output": text,
                        "schedule": full,
                        "expected_trace": env.trace,
                        "actual_trace": env2.trace,
                        "actual_status": st2,
                    },
                )

    nodes, trans, execs, capped = e2.explore(lambda p: run(code_src, "exec", p), on_schedule, max_dev=max_dev)
    res.c["choice_nodes"] += nodes + 1
    res.c["transitions"] += trans
    res.c["ref_executions"] += execs
    res.c["distinct_traces"] += len(distinct)
    if len(distinct) > 1:
        res.c["skeletons_with_multiple_outcomes"] += 1
    res.sample({"key": key, "source": src, "schedules": execs})


def run_shard(shard):
    frame, size, r, k, cfgs, max_dev = shard
    res = core.ShardResult()
    _, _, in_loop, in_func = FRAMES[frame]
    for idx, b in enumerate(blocks(size, in_loop, in_func)):
        if idx % k != r:
            continue
        key = "c05:%s:%s" % (frame, sexpr(b))
        check_skeleton(res, key, source(b, frame), cfgs, max_dev)
    return res


# quick tier, largest size only: one unparser per (wrapper, if-style) pair, the default configuration included
HALF_CFG = [4, 1, 2, 7]

TIERS = {
    # frame -> (max size fully explored, [(size, max_dev)] extra deviation-bounded sizes)
    "quick": {
        "module": (4, []),
        "func": (5, []),
        "class": (4, []),
        "method": (3, []),
        "loopfunc": (3, []),
        "loopclass": (3, []),
        "funcloop": (4, [(5, 1)]),
        "whileelse": (4, []),
    },
    "thorough": {
        "module": (6, []),
        "func": (6, []),
        "class": (5, []),
        "method": (5, []),
        "loopfunc": (4, []),
        "loopclass": (4, []),
        "funcloop": (5, [(6, 1)]),
        "whileelse": (5, []),
    },
}


def shards(tier):
    out = []
    for frame, (mx, extra) in TIERS[tier].items():
        for size in range(1, mx + 1):
            k = 1 if size <= 2 else (8 if size == 3 else 64 if size == 4 else 512 if size == 5 else 4096)
            cfgs = core.ALL_CFG if (tier == "thorough" or size <= 4) else HALF_CFG
            for r in range(k):
                out.append((frame, size, r, k, cfgs, None))
        for size, dev in extra:
            for r in range(4096):
                out.append((frame, size, r, 4096, core.ALL_CFG if tier == "thorough" else HALF_CFG, dev))
    return out


def main(tier, seed, collect=None):
    t0 = time.time()
    sh = shards(tier)
    total = core.run_shards(run_shard, sh, seed=seed, pid=PID)
    c = total.c
    cov = {
        "states": c["choice_nodes"],
        "transitions": c["transitions"],
        "traces_validated_against_impl": c["replays"],
        "evaluations": c["replays"] + c["ref_executions"],
        "distinct_nontrivial": c["skeletons_with_multiple_outcomes"],
        "rule": "every control-flow skeleton of the grammar up to the per-frame size bound is a case; "
        "a case is non-trivial when its schedules produce more than one distinct reference trace; "
        "states = nodes of the environment choice tree of the reference run, transitions = answers",
        "exhaustive": True,
        "bounds": TIERS[tier],
        "while_budget_per_site": WBUDGET,
        "iterator_lengths": [0, 1, 2],
        "configurations": [core.cfg_name(i) for i in core.ALL_CFG],
        "skeletons": c["skeletons"],
        "complete_schedules": c["schedules"],
        "distinct_reference_traces": c["distinct_traces"],
    }
    assumptions = [
        "CPython %s executing the source is the reference semantics" % core.HOST,
        "probe functions m/v/c/it are the only observable effects of a skeleton",
        "schedules in which one while-site answers true more than twice per run, or more than 400 probe calls, are beyond the horizon (counted)",
    ]
    return core.finish(PID, tier, seed, LEVEL, total, cov, assumptions, t0, collect)


def replay(payload):
    ex = payload["extra"] or {}
    src = ex.get("source")
    if src is None:
        print("replay file has no source")
        return 2
    res = core.ShardResult()
    check_skeleton(res, payload["key"], src, [payload["cfg"]] if payload["cfg"] is not None else core.ALL_CFG)
    for f in res.fails:
        print("still failing:", f[0], core.cfg_name(f[1]), f[3], f[4])
    return 1 if res.fails else 0

"""C13 - assignment, destructuring and augmented assignment store what Python stores (E1, exhaustive).

Families (complete products):
  unpack  target patterns: trees of depth <= 2 (quick) / <= 3 (thorough), 1..3 elements per level,
          leaves {name, attribute, subscript, (starred) slice}, at most one star per level at every
          position, tuple and list brackets  x  source length min..min+2  x  source kind
          {list, tuple, str, range, generator, dict keys view, one-shot iterator}
  slice   l[lo:up:st] = v and l[lo:up:st] op= v : every subset of bounds, bound values negative/zero/
          positive/beyond the end, steps {1,2,-1}, value lengths 0..3
  chained chained assignments mixing destructuring targets with name/attribute/subscript targets x 7 value
          kinds: every target receives the value itself (type and identity observed)
  ops     13 operators x target {name, attribute, subscript, slice} x left/right operand types
          {int, float, str, list, tuple, set, dict, bytearray, frozenset, user class with in-place method,
          without, with an in-place method returning a new object, with one returning NotImplemented} x placement {global, local, nonlocal, two nonlocal levels / global declaration (reduced operand table),
          class body}; an alias of the left operand and the number of stores are observed
Oracle : stdout (repr of every target and alias, identity alias-vs-target, store counts) and final
         globals equal CPython's; programs on which CPython raises are outside the fragment.
"""
import itertools
import time

from .. import core, progcheck

PID = "C13"
LEVEL = "exploration"

PRE = (
    "class O:\n    pass\no = O()\nd = {}\nl0 = [10, 11, 12, 13]\nl1 = [20, 21, 22, 23]\n"
)


# --------------------------------------------------------------------------- unpack family
LEAVES = ["n", "a", "s"]


def patterns(depth, maxn=3):
    """yield (source text, list of read-back exprs, min length, has star, children spec)
    spec: list of ('leaf'|'star'|sub-spec) used to build sources"""
    # elements: leaf kinds or nested patterns
    def elems(depth):
        for k in LEAVES:
            yield ("leaf", k)
        if depth > 1:
            for sub in shapes(depth - 1):
                yield ("sub", sub)

    def shapes(depth):
        for n in range(1, maxn + 1):
            for combo in itertools.product(list(elems(depth)), repeat=n):
                # limit blow-up: at most one nested element per level beyond quick leaves
                if sum(1 for c in combo if c[0] == "sub") > 1:
                    continue
                for star in [None] + list(range(n)):
                    if star is not None and combo[star][0] == "sub":
                        continue
                    for br in ("t", "l"):
                        if br == "l" and n == 3:
                            continue
                        yield (combo, star, br)

    for sh in shapes(depth):
        yield sh


def render_pattern(sh, ids):
    combo, star, br = sh
    parts = []
    reads = []
    for i, c in enumerate(combo):
        if c[0] == "leaf":
            ids[0] += 1
            j = ids[0]
            if i == star and c[1] == "s":
                t, r = "l0[%d:%d]" % (j % 3, j % 3 + 1), "l0"
            else:
                t, r = {"n": ("v%d" % j, "v%d" % j), "a": ("o.a%d" % j, "o.a%d" % j), "s": ("d[%d]" % j, "d[%d]" % j)}[c[1]]
        else:
            t, r0 = render_pattern(c[1], ids)
            r = None
            reads.extend(r0)
        parts.append(("*" if i == star else "") + t)
        if r:
            reads.append(r)
    if br == "t":
        txt = "(" + ", ".join(parts) + ("," if len(parts) == 1 else "") + ")"
    else:
        txt = "[" + ", ".join(parts) + "]"
    return txt, reads


def build_source(sh, extra, ids, kind="list", nested="alt"):
    """a nested value matching the pattern; `extra` more items where the star allows.
    nested: how values for nested sub-patterns are written: 'alt' (list/tuple alternating), 'gen'
    (generator expression), 'iter' (one-shot iterator), 'dict' (a dict: unpacking yields its int keys)"""
    combo, star, br = sh
    items = []
    for i, c in enumerate(combo):
        if i == star:
            for _ in range(extra):
                ids[0] += 1
                items.append(str(100 + ids[0]))
            continue
        if c[0] == "leaf":
            ids[0] += 1
            items.append(str(100 + ids[0]))
        else:
            inner = build_source(c[1], 1, ids, "tuple" if kind == "list" else "list", nested)
            if nested == "gen":
                inner = "(q for q in %s)" % inner
            elif nested == "iter":
                inner = "iter(%s)" % inner
            elif nested == "dict":
                if all(x[0] == "leaf" for x in c[1][0]):
                    n_in = len(c[1][0]) + (0 if c[1][1] is None else 0)
                    inner = "{%s}" % ", ".join("%d: %d" % (i, 500 + i) for i in range(n_in))
                else:
                    inner = "(q for q in %s)" % inner
            items.append(inner)
    if kind == "tuple":
        return "(" + ", ".join(items) + ("," if len(items) == 1 else "") + ")"
    return "[" + ", ".join(items) + "]"


KINDS = ["list", "tuple", "gen", "range", "str", "keys", "iter", "ngen", "niter", "ndict"]


def unpack_programs(depth, mode="full"):
    """mode: 'full' (every kind and extra length), 'quick' (nested patterns: list/gen sources; extras 0 and 2),
    'deep' (depth 3 with <= 2 elements per level; list/gen/iter sources; extras 0 and 1)"""
    for sh in patterns(depth, 2 if mode == "deep" else 3):
        combo, star, br = sh
        flat = all(c[0] == "leaf" for c in combo)
        ids = [0]
        ptxt, reads = render_pattern(sh, ids)
        if ptxt.startswith("(") and ptxt.endswith(")"):
            ptxt = ptxt[1:-1]  # bare tuple target
        extras = (0,) if star is None else {"full": (0, 1, 2), "quick": (0, 2), "deep": (0, 1)}[mode]
        for extra in extras:
            for kind in KINDS:
                if kind in ("range", "str", "keys") and not flat:
                    continue
                if kind in ("ngen", "niter", "ndict") and flat:
                    continue
                if mode == "quick" and not flat and kind not in ("list", "gen", "ngen", "ndict"):
                    continue
                if mode == "deep" and kind not in ("list", "gen", "iter", "ngen", "ndict"):
                    continue
                n = len(combo) - (1 if star is not None else 0) + extra
                sids = [0]
                if kind in ("list", "tuple"):
                    src = build_source(sh, extra, sids, kind)
                elif kind == "gen":
                    src = "(q for q in %s)" % build_source(sh, extra, sids, "list")
                elif kind == "iter":
                    src = "iter(%s)" % build_source(sh, extra, sids, "tuple")
                elif kind in ("ngen", "niter", "ndict"):
                    src = build_source(sh, extra, sids, "list", kind[1:])
                elif kind == "range":
                    src = "range(%d)" % n
                elif kind == "str":
                    src = repr("abcdefgh"[:n])
                else:
                    src = "{%s}.keys()" % ", ".join("%d: 0" % (50 + i) for i in range(n))
                key = "c13:unpack:%s:%s:+%d" % (_shkey(sh), kind, extra)
                prog = PRE + "%s = %s\nprint(%s)\nprint(sorted(d.items()), sorted(vars(o).items()), l0)\n" % (
                    ptxt, src, ", ".join(reads) if reads else "0")
                yield key, prog


def _shkey(sh):
    combo, star, br = sh
    return br + "(" + " ".join(("*" if i == star else "") + (c[1] if c[0] == "leaf" else _shkey(c[1])) for i, c in enumerate(combo)) + ")"


# --------------------------------------------------------------------------- slice family
def slice_programs():
    lows = [None, -2, 0, 2, 7]
    ups = [None, -1, 0, 3, 9]
    steps = [None, 1, 2, -1]
    for lo, up, st in itertools.product(lows, ups, steps):
        sl = "%s:%s%s" % ("" if lo is None else lo, "" if up is None else up, "" if st is None else ":%d" % st)
        for vlen in range(4):
            val = "[%s]" % ", ".join(str(90 + i) for i in range(vlen))
            yield "c13:slice:set:%s:%d" % (sl, vlen), PRE + "alias = l0\nl0[%s] = %s\nprint(l0, alias is l0)\n" % (sl, val)
            yield "c13:slice:set-tuple-src:%s:%d" % (sl, vlen), PRE + "l0[%s] = (q for q in %s)\nprint(l0)\n" % (sl, val)
        yield "c13:slice:aug-add:%s" % sl, PRE + "alias = l0\nl0[%s] += [7]\nprint(l0, alias is l0)\n" % sl
        yield "c13:slice:aug-mul:%s" % sl, PRE + "l0[%s] *= 2\nprint(l0)\n" % sl
        yield "c13:slice:load:%s" % sl, PRE + "v = l0[%s]\nprint(v, l0)\n" % sl
        yield "c13:slice:in-func:%s" % sl, PRE + "def f(l, a, b):\n    l[%s] = [a, b]\n    return l\nprint(f(l1, 1, 2))\n" % sl
    # two-dimensional / tuple indices on a recording container
    rec = "class R:\n    def __init__(s):\n        s.log = []\n    def __setitem__(s, k, v):\n        s.log.append(('set', k, v))\n    def __getitem__(s, k):\n        s.log.append(('get', k))\n        return 5\nr = R()\n"
    for idx in ("1:2, 3", "1, 2", "::2, 1:", "..., 0", "(1, 2)", "1:2,", "slice(1, 2)", "-1", "1:2:3, 4:5:6, 7"):
        yield "c13:slice:tupleidx:set:" + idx, rec + "r[%s] = 9\nprint(r.log)\n" % idx
        yield "c13:slice:tupleidx:aug:" + idx, rec + "r[%s] += 9\nprint(r.log)\n" % idx


def chained_programs():
    """chained assignments that mix destructuring targets with plain/attribute/subscript targets:
    every target must receive the VALUE itself (same object, same type), never a snapshot of it"""
    values = {"list": "[1, 2]", "tuple": "(1, 2)", "str": "'ab'", "gen": "(q for q in (1, 2))", "range": "range(2)", "dictkeys": "{1: 0, 2: 0}.keys()", "nested": "[[1, 2], 3]"}
    chains = [
        "a, b = whole", "whole = a, b", "a, b = whole = o.w", "o.w = a, b = whole", "[a, b] = whole = d['w']", "a, *b = whole = o.w", "whole = a, b = c, e",
        "(a, b), c = whole", "whole = (a, b), c", "a, b = c, e = whole", "d['w'] = o.w = a, b",
    ]
    for vn, v in values.items():
        for i, ch in enumerate(chains):
            if ("(a, b), c" in ch) != (vn == "nested"):
                continue
            names = sorted(set(__import__("re").findall(r"\b(a|b|c|e|whole)\b", ch)))
            reads = ", ".join("(%r, type(%s).__name__, %s if not hasattr(%s, '__next__') else 'iterator')" % (n, n, n, n) for n in names)
            extra = []
            if "o.w" in ch:
                extra.append("type(o.w).__name__")
                if "whole" in ch:
                    extra.append("o.w is whole")
            if "d['w']" in ch:
                extra.append("type(d['w']).__name__")
                if "whole" in ch:
                    extra.append("d['w'] is whole")
            yield "c13:chained:%s:%d" % (vn, i), PRE + "%s = %s\nprint(%s)\n" % (ch, v, ", ".join([reads] + extra))


# --------------------------------------------------------------------------- operator family
OPS = ["+", "-", "*", "@", "/", "//", "%", "**", "<<", ">>", "&", "^", "|"]
_DUNDER = {"+": "add", "-": "sub", "*": "mul", "@": "matmul", "/": "truediv", "//": "floordiv", "%": "mod", "**": "pow", "<<": "lshift", ">>": "rshift", "&": "and", "^": "xor", "|": "or"}
CLS = (
    "NAMES = " + repr(sorted(_DUNDER.values())) + "\n"
    "class NI:\n    def __init__(s, v):\n        s.v = v\n    def __repr__(s):\n        return '%s(%r)' % (type(s).__name__, s.v)\n"
    "class WI(NI):\n    pass\nclass RN(NI):\n    pass\nclass WN(NI):\n    pass\n"
    "def _mk(nm):\n"
    "    def b(s, o):\n        return type(s)((nm, s.v, repr(o)))\n"
    "    def i(s, o):\n        s.v = ('i' + nm, s.v, repr(o))\n        return s\n"
    "    def r(s, o):\n        return NI(('new-i' + nm, s.v, repr(o)))\n"
    "    def ni(s, o):\n        return NotImplemented\n"
    "    setattr(NI, '__%s__' % nm, b)\n    setattr(WI, '__i%s__' % nm, i)\n    setattr(RN, '__i%s__' % nm, r)\n    setattr(WN, '__i%s__' % nm, ni)\n"
    "for _n in NAMES:\n    _mk(_n)\n"
    "class CO:\n    n = 0\n    def __setattr__(s, k, v):\n        CO.n += 1\n        object.__setattr__(s, k, v)\n"
    "class CD(dict):\n    n = 0\n    def __setitem__(s, k, v):\n        CD.n += 1\n        dict.__setitem__(s, k, v)\n"
)
OPERANDS = {
    "int": "7", "float": "2.5", "str": "'ab'", "list": "[1, 2]", "tuple": "(1, 2)", "set": "{1, 2}", "dict": "{1: 2}",
    "bytearray": "bytearray(b'xy')", "WI": "WI(1)", "NI": "NI(1)", "RN": "RN(1)", "WN": "WN(1)", "int3": "3", "fset": "frozenset({2, 3})",
}


def ops_programs():
    for op in OPS:
        for lt, lv in OPERANDS.items():
            for rt, rv in OPERANDS.items():
                for tk in ("name", "attr", "sub", "slice"):
                    if tk == "slice" and lt not in ("list", "bytearray", "tuple", "str"):
                        continue
                    for pl in ("global", "local", "nonlocal", "class", "nonlocal2", "globaldecl"):
                        if pl in ("nonlocal2", "globaldecl") and not (lt in ("int", "list", "WI", "NI", "str") and rt in ("int", "list", "str")):
                            continue  # the deeper store routes are explored over a reduced operand table
                        key = "c13:ops:%s:%s:%s:%s:%s" % (_DUNDER[op], lt, rt, tk, pl)
                        if tk == "name":
                            setup, tgt, read = "x = %s\nalias = x" % lv, "x", "x"
                        elif tk == "attr":
                            setup, tgt, read = "h = CO()\nh.v = %s\nalias = h.v\nCO.n = 0" % lv, "h.v", "h.v"
                        elif tk == "sub":
                            setup, tgt, read = "h = CD()\nh['k'] = %s\nalias = h['k']\nCD.n = 0" % lv, "h['k']", "h['k']"
                        else:
                            setup, tgt, read = "h = CD()\nh['k'] = [%s, 0]\nalias = h['k'][0]\nCD.n = 0" % lv, "h['k'][0:1]", "h['k']"
                            if lt in ("tuple", "str"):
                                setup = "h = CD()\nh['k'] = [1, 2, 3]\nalias = h['k']\nCD.n = 0"
                                tgt = "h['k'][0:2]"
                        stmt = "%s %s= %s" % (tgt, op, rv)
                        show = "print(repr(%s), repr(alias), %s is alias, CO.n, CD.n)" % (read, read)
                        if pl == "global":
                            body = "%s\n%s\n%s\n" % (setup, stmt, show)
                        elif pl == "local":
                            body = "def f():\n%s\nf()\n" % _ind("%s\n%s\n%s" % (setup, stmt, show))
                        elif pl == "nonlocal":
                            decl = "nonlocal x, alias" if tk == "name" else "nonlocal h, alias"
                            body = "def f():\n%s\n    def g():\n        %s\n%s\n    g()\n%s\nf()\n" % (_ind(setup), decl, _ind(_ind(stmt)), _ind(show))
                        elif pl == "nonlocal2":
                            # two nonlocal levels that both rebind the variable: the store must reach the scope where it was born
                            decl = "nonlocal x, alias" if tk == "name" else "nonlocal h, alias"
                            rebind = "x = x" if tk == "name" else "h = h"
                            body = "def f():\n%s\n    def g():\n        %s\n        %s\n        def k():\n            %s\n%s\n        k()\n    g()\n%s\nf()\n" % (
                                _ind(setup), decl, rebind, decl, _ind(_ind(_ind(stmt))), _ind(show))
                        elif pl == "globaldecl":
                            decl = "global x, alias" if tk == "name" else "global h, alias"
                            body = "%s\ndef f():\n    %s\n%s\nf()\n%s\n" % (setup, decl, _ind(stmt), show)
                        else:
                            body = "class K:\n%s\n" % _ind("%s\n%s\n%s" % (setup, stmt, show))
                        yield key, CLS + body


def _ind(s):
    return "\n".join("    " + l for l in s.split("\n"))


# --------------------------------------------------------------------------- driver
FAMILIES = {"unpack": None, "slice": slice_programs, "ops": ops_programs, "chained": chained_programs}


def run_shard(shard):
    fam, arg, r, k, cfgs = shard
    res = core.ShardResult()
    gen = unpack_programs(*arg) if fam == "unpack" else FAMILIES[fam]()
    for idx, (key, src) in enumerate(gen):
        if idx % k != r:
            continue
        res.c["programs_generated"] += 1
        n = progcheck.check_program(res, key, src, cfgs)
        if n == 0 and idx % 1013 == 0:
            res.sample({"key": key, "source": src[len(PRE):] if src.startswith(PRE) else src[-400:]})
    return res


def shards(tier):
    out = []
    cfgs = core.ALL_CFG
    if tier == "quick":
        for r in range(64):
            out.append(("unpack", (2, "quick"), r, 64, [2, 5]))
    else:
        for r in range(256):
            out.append(("unpack", (2, "full"), r, 256, cfgs))
        for r in range(512):
            out.append(("unpack", (3, "deep"), r, 512, [2, 5]))
    for r in range(16):
        out.append(("slice", None, r, 16, cfgs))
    out.append(("chained", None, 0, 1, cfgs))
    ko = 128
    for r in range(ko):
        out.append(("ops", None, r, ko, cfgs if tier == "thorough" else [2, 5]))
    return out


def main(tier, seed, collect=None):
    t0 = time.time()
    total = core.run_shards(run_shard, shards(tier), seed=seed, pid=PID)
    other_hosts = core.run_on_hosts(PID, ["py310", "py311", "py313"], "quick", seed, total) if tier == "thorough" else []

    c = total.c
    cov = {
        "converter_hosts": [core.HOST] + other_hosts,
        "evaluations": c["executions"],
        "distinct_nontrivial": c["programs_in_scope"],
        "rule": "every member of the three products (unpack patterns x lengths x source kinds; slice bounds x values; operators x target "
        "kinds x operand types x placements) is one program; non-trivial = CPython runs it without raising, so its conversions are compared",
        "exhaustive": True,
        "unpack_pattern_depth": "2 (nested patterns: list/generator sources, star absorbing 0 or 2 items)" if tier == "quick" else "2 in full x 8 configurations; 3 with <= 2 elements per level",
        "programs_generated": c["programs_generated"],
        "states": c["programs_generated"],
        "transitions": c["executions"],
        "traces_validated_against_impl": c["executions"],
    }
    assumptions = [
        "CPython %s is the reference; programs on which it raises (length mismatch, unsupported operands) are outside the fragment" % core.HOST,
        "quick tier runs 4 (unpack) / 2 (operator table) of the 8 option combinations; thorough runs all 8",
    ]
    return core.finish(PID, tier, seed, LEVEL, total, cov, assumptions, t0, collect)


def replay(payload):
    src = (payload.get("extra") or {}).get("source")
    if src is None:
        print("no source in replay file")
        return 2
    res = core.ShardResult()
    progcheck.check_program(res, payload["key"], src, [payload["cfg"]] if payload.get("cfg") is not None else None)
    for f in res.fails:
        print("still failing:", f[0], core.cfg_name(f[1]), f[3], f[4])
    return 1 if res.fails else 0

"""C04 - the project's own unparser preserves literals exactly and never emits a line break
(E1, exhaustive exploration).

Families (complete enumerations):
  sigma   every string over the hazard alphabet SIGMA up to length 3 (quick) / 4 (thorough) in the
          contexts: plain constant, f-string literal part, constant in a replacement field, constant
          in a nested field of a format spec, literal format spec, dict key inside a replacement
          field, bytes; plus length 4 (quick) / 5 (thorough) over the quote/backslash/brace/line-break
          core of the alphabet, and every bytes value up to length 4 (quick) / 5 (thorough) over 9 byte symbols
  cp      every single code point 0..0x2FF plus the plane/surrogate boundary points, in each context,
          alone and between two ordinary characters; every byte value 0..255
  num     numeric/singleton constants in the contexts bare / attribute base / power operand /
          subscript base / replacement field / call argument
  fshape  f-strings: conversion {none,!r,!s,!a} x 7 format-spec shapes x 10 value kinds, nested to
          depth 2 (quick) / 3 (thorough)
  nest    sigma strings of length <= 2 at each level of a 3-deep nest of f-strings in containers
  fq      literal text (every string of length 1..3 over the quote core) before / after / around a replacement
          field holding a string constant (every string of length <= 2 over 6 symbols): quote-mark choice
          constrained by the field, escaping of the literal text at the edges of the f-string
  corpus  every string/bytes/f-string literal of the host's standard library
Oracle: text has no '\\n'/'\\r'; ast.parse(text) gives identical constant values (repr-compared, so
NaN and -0.0 are distinguished), conversion codes and format-spec structure.
"""
import ast
import itertools
import os
import sys
import time
import warnings

from .. import core
from ..exprspace import *  # noqa
from .. import exprspace as X
from . import c03

PID = "C04"
LEVEL = "exploration"

SIGMA = ["'", '"', "\\", "{", "}", "\n", "\r", "\0", "\t", " ", "a", "\xe9", "\u20ac", "\x85", "\u2028", "\ud800", ":", "!"]
BOUNDARY = [0xD7FF, 0xD800, 0xDBFF, 0xDC00, 0xDFFF, 0xE000, 0xFEFF, 0xFFFD, 0xFFFF, 0x10000, 0x1F600, 0xE0001, 0x10FFFF]

# context name -> (builder, in scope by construction on >= 3.12)
def _fv(v, conv=-1, spec=None):
    return FormattedValue(value=v, conversion=conv, format_spec=spec)


STR_CONTEXTS = {
    "plain": (lambda s: Constant(value=s), True),
    "fliteral": (lambda s: JoinedStr(values=[Constant(value=s), _fv(X.N("x"))]), True),
    "fliteral2": (lambda s: JoinedStr(values=[_fv(X.N("x")), Constant(value=s)]), True),
    "field": (lambda s: JoinedStr(values=[_fv(Constant(value=s))]), sys.version_info >= (3, 12)),
    "field!r": (lambda s: JoinedStr(values=[Constant(value="p"), _fv(Constant(value=s), 114)]), sys.version_info >= (3, 12)),
    "specfield": (lambda s: JoinedStr(values=[_fv(X.N("x"), -1, JoinedStr(values=[_fv(Constant(value=s))]))]), sys.version_info >= (3, 12)),
    "specliteral": (lambda s: JoinedStr(values=[_fv(X.N("x"), -1, JoinedStr(values=[Constant(value=s)]))]), False),
    "dictkey": (lambda s: JoinedStr(values=[_fv(Dict(keys=[Constant(value=s)], values=[Constant(value=s)]))]), sys.version_info >= (3, 12)),
    "callarg": (lambda s: Call(func=X.N("f"), args=[Constant(value=s)], keywords=[keyword(arg="k", value=Constant(value=s))]), True),
    "nested-fstr": (lambda s: JoinedStr(values=[_fv(JoinedStr(values=[Constant(value=s), _fv(Constant(value=s))]))]), sys.version_info >= (3, 12)),
}
BYTES_CONTEXTS = {
    "bytes": (lambda b: Constant(value=b), True),
    "bytesfield": (lambda b: JoinedStr(values=[_fv(Constant(value=b))]), sys.version_info >= (3, 12)),
    "bytesattr": (lambda b: Attribute(value=Constant(value=b), attr="hex", ctx=Load()), True),
}


def sigma_strings(maxlen, lo=0):
    for n in range(lo, maxlen + 1):
        for t in itertools.product(SIGMA, repeat=n):
            yield "".join(t)


def _esc(c):
    o = ord(c)
    return "\\x%02x" % o if o < 256 else ("\\u%04x" % o if o < 65536 else "\\U%08x" % o)


def spec_literal_denotable(s, e):
    """a literal format spec is denotable on >= 3.12 by writing every character as an escape (\\x7b for a brace)"""
    if sys.version_info < (3, 12) or not s:
        return False
    try:
        back = ast.parse("f'{x:%s}'" % "".join(_esc(c) for c in s), mode="eval").body
    except (SyntaxError, ValueError):
        return False
    return X.ndump(back) == X.ndump(e)


def judge(res, key, e, by_construction):
    up = c03.unparser()
    res.c["literals"] += 1
    r = X.judge(e, up, gate=not by_construction)
    if r == "ok":
        res.c["in_scope"] += 1
    elif r == "skip":
        res.c["out_of_scope_no_text_parses_to_it"] += 1
    elif r == "refused-backslash":
        res.c["documented_refusal_backslash_below_3.12"] += 1
    else:
        res.c["in_scope"] += 1
        try:
            ref = ast.unparse(e)
        except Exception:
            ref = None
        res.fail(key, None, r[0], r[1], {"text": r[2], "ast_unparse_text": ref, "tree": X.ndump(e)[:1500]})
    return r


# --------------------------------------------------------------------------- numeric family
def numerics():
    vals = [
        0, 1, 7, 10**20, 2**200, 0.0, 0.1, 1.0, 1e308, 5e-324, 1e-7, 1e16, 1e22, 1.5e300, float("inf"),
        1j, 0j, 2.5j, 1e-7j, complex(0, float("inf")), True, False, None, ...,
    ]
    ctx = {
        "bare": lambda c: c,
        "attr": lambda c: Attribute(value=c, attr="real", ctx=Load()),
        "powl": lambda c: BinOp(left=c, op=Pow(), right=X.N("b")),
        "powr": lambda c: BinOp(left=X.N("b"), op=Pow(), right=c),
        "sub": lambda c: Subscript(value=c, slice=X.N("i"), ctx=Load()),
        "field": lambda c: JoinedStr(values=[_fv(c)]),
        "fieldspec": lambda c: JoinedStr(values=[_fv(c, 114, JoinedStr(values=[Constant(value=">9")]))]),
        "call": lambda c: Call(func=c, args=[c], keywords=[]),
        "neg": lambda c: UnaryOp(op=USub(), operand=c),
        "negattr": lambda c: Attribute(value=UnaryOp(op=USub(), operand=c), attr="real", ctx=Load()),
        "negpow": lambda c: BinOp(left=UnaryOp(op=USub(), operand=c), op=Pow(), right=UnaryOp(op=USub(), operand=c)),
        "cmp": lambda c: Compare(left=c, ops=[Is(), In()], comparators=[c, c]),
        "ifexp": lambda c: IfExp(test=c, body=c, orelse=c),
        "slice": lambda c: Subscript(value=X.N("s"), slice=Slice(lower=c, upper=c, step=c), ctx=Load()),
    }
    for v in vals:
        for cn, cf in ctx.items():
            yield "c04:num:%s:%r" % (cn, v), cf(Constant(value=v))


# --------------------------------------------------------------------------- f-string shapes
CONVS = [-1, 114, 115, 97]


def spec_shapes():
    return {
        "none": lambda: None,
        "empty": lambda: JoinedStr(values=[]),
        "const": lambda: JoinedStr(values=[Constant(value=">10")]),
        "field": lambda: JoinedStr(values=[_fv(X.N("w"))]),
        "const+field": lambda: JoinedStr(values=[Constant(value="0"), _fv(X.N("w"))]),
        "field+const": lambda: JoinedStr(values=[_fv(X.N("w")), Constant(value="d")]),
        "field.field": lambda: JoinedStr(values=[_fv(X.N("w")), Constant(value="."), _fv(X.N("p"))]),
        "field!r:spec": lambda: JoinedStr(values=[_fv(X.N("w"), 114, JoinedStr(values=[Constant(value="<3")]))]),
    }


def value_kinds():
    return {
        "name": lambda: X.N("x"),
        "dict": lambda: Dict(keys=[Constant(value="k")], values=[X.N("v")]),
        "set": lambda: Set(elts=[X.N("x")]),
        "dictcomp": lambda: DictComp(key=X.N("k"), value=X.N("k"), generators=[X.comp(X.St("k"), X.N("it"))]),
        "dictsub": lambda: Subscript(value=Dict(keys=[Constant(value="k")], values=[X.N("v")]), slice=Constant(value="k"), ctx=Load()),
        "lambdacall": lambda: Call(func=Lambda(args=X.A0(), body=X.N("x")), args=[], keywords=[]),
        "lambda": lambda: Lambda(args=X.A0(), body=X.N("x")),
        "ifexp": lambda: IfExp(test=X.N("p"), body=X.N("x"), orelse=X.N("q")),
        "walrus": lambda: NamedExpr(target=X.St("w"), value=X.N("x")),
        "str": lambda: Constant(value="s'\"t"),
        "tuple": lambda: Tuple(elts=[X.N("x"), X.N("y")], ctx=Load()),
        "startuple": lambda: Tuple(elts=[Starred(value=X.N("x"), ctx=Load()), X.N("y")], ctx=Load()),
        "neq": lambda: Compare(left=X.N("x"), ops=[NotEq()], comparators=[X.N("y")]),
        "yield": lambda: Yield(value=X.N("x")),
        "slice": lambda: Subscript(value=X.N("x"), slice=Slice(lower=None, upper=None, step=Constant(value=2)), ctx=Load()),
    }


def fshapes(depth):
    """yield (key, JoinedStr) for all shapes with nesting <= depth"""
    specs = spec_shapes()
    kinds = value_kinds()

    def rec(d):
        for cv in CONVS:
            for sn, sf in specs.items():
                for kn, kf in kinds.items():
                    yield "%s%s:%s" % (kn, "" if cv == -1 else "!" + chr(cv), sn), JoinedStr(values=[Constant(value="a{"), _fv(kf(), cv, sf()), Constant(value="}b")])
                if d > 1:
                    for k2, inner in rec(d - 1):
                        yield "f(%s)%s:%s" % (k2, "" if cv == -1 else "!" + chr(cv), sn), JoinedStr(values=[_fv(inner, cv, sf())])

    for k, e in rec(depth):
        yield "c04:fshape:" + k, e


# --------------------------------------------------------------------------- corpus literals
def corpus_shard(res, files):
    for f in files:
        try:
            with warnings.catch_warnings():
                warnings.simplefilter("ignore")
                tree = ast.parse(open(f, encoding="utf8").read())
        except Exception:
            continue
        rel = os.path.relpath(f, os.path.dirname(os.__file__))
        res.c["corpus_files"] += 1
        stack = [tree]
        while stack:
            n = stack.pop()
            if isinstance(n, JoinedStr) or (isinstance(n, Constant) and isinstance(n.value, (str, bytes, float, complex, int))):
                judge(res, "c04:corpus:%s:%d:%d" % (rel, n.lineno, n.col_offset), n, True)
                if isinstance(n, JoinedStr):
                    continue
            stack.extend(ast.iter_child_nodes(n))


# --------------------------------------------------------------------------- driver
def run_shard(shard):
    res = core.ShardResult()
    kind = shard[0]
    if kind == "sigma":
        _, ctx, maxlen, first = shard
        build, byc = STR_CONTEXTS[ctx]
        for rest in sigma_strings(maxlen - 1):
            s = first + rest
            t = build(s)
            r = judge(res, "c04:sigma:%s:%s" % (ctx, ascii(s)), t, byc or (ctx == "specliteral" and spec_literal_denotable(s, t)))
            if r == "ok" and len(s) == maxlen and res.c["literals"] % 1500 == 1:
                res.sample({"key": "c04:sigma:%s:%s" % (ctx, ascii(s)), "text": c03.unparser()(build(s))})
    elif kind == "qsigma":
        # quote/backslash/brace/line-break core of SIGMA one symbol longer than the full-alphabet bound
        _, ctx, n, first = shard
        build, byc = STR_CONTEXTS[ctx]
        for t in itertools.product(QSIG, repeat=n - 1):
            s = first + "".join(t)
            e = build(s)
            judge(res, "c04:sigma:%s:%s" % (ctx, ascii(s)), e, byc or (ctx == "specliteral" and spec_literal_denotable(s, e)))
    elif kind == "sigma0":
        for ctx, (build, byc) in STR_CONTEXTS.items():
            judge(res, "c04:sigma:%s:''" % ctx, build(""), byc and ctx == "plain")
    elif kind == "cp":
        _, ctx = shard
        build, byc = STR_CONTEXTS[ctx]
        for cp in list(range(0x300)) + BOUNDARY:
            ch = chr(cp)
            for form, s in (("1", ch), ("mid", "a" + ch + "b"), ("dbl", ch + ch)):
                t = build(s)
                judge(res, "c04:cp:%s:%s:U+%04X" % (ctx, form, cp), t, byc or (ctx == "specliteral" and spec_literal_denotable(s, t)))
    elif kind == "bytes":
        for ctx, (build, byc) in BYTES_CONTEXTS.items():
            for v in range(256):
                for form, b in (("1", bytes([v])), ("mid", b"a" + bytes([v]) + b"b")):
                    judge(res, "c04:bytes:%s:%s:%02x" % (ctx, form, v), build(b), byc)
            for n in range(0, 3):
                for t in itertools.product(BSIG, repeat=n):
                    b = b"".join(t)
                    judge(res, "c04:bytes:%s:sigma:%r" % (ctx, b), build(b), byc)
    elif kind == "bsigma":
        # every bytes value of length 3..maxlen over BSIG starting with `first` (length 4 is the shortest value that
        # rules out every quote mark: both triple quotes inside or a quote of each kind at the end)
        _, first, maxlen = shard
        for ctx, (build, byc) in BYTES_CONTEXTS.items():
            for n in range(2, maxlen):
                for t in itertools.product(BSIG, repeat=n):
                    b = first + b"".join(t)
                    judge(res, "c04:bytes:%s:sigma:%r" % (ctx, b), build(b), byc)
    elif kind == "num":
        for key, e in numerics():
            judge(res, key, e, False)
    elif kind == "fshape":
        _, depth, r, k = shard
        for i, (key, e) in enumerate(fshapes(depth)):
            if i % k == r:
                rr = judge(res, key, e, False)
                if rr == "ok":
                    res.sample({"key": key, "text": c03.unparser()(e)}, 1)
    elif kind == "nest":
        _, first = shard
        for rest in sigma_strings(1):
            s = first + rest
            for t in sigma_strings(1, 1):
                e = JoinedStr(values=[Constant(value=s), _fv(List(elts=[Constant(value=t), JoinedStr(values=[_fv(Dict(keys=[Constant(value=s)], values=[JoinedStr(values=[Constant(value=t), _fv(Constant(value=s))])]))])], ctx=Load()))])
                judge(res, "c04:nest:%s:%s" % (ascii(s), ascii(t)), e, sys.version_info >= (3, 12))
    elif kind == "fq":
        # literal text next to a replacement field holding a string constant: the constant decides which quote
        # marks remain for the f-string (both kinds of quote inside force a triple quote), the literal text then has
        # to be escaped for that mark - at its start, in the middle and, critically, at the very end of the f-string
        _, t = shard
        for n in (1, 2, 3):
            for tt in itertools.product(QSIG, repeat=n):
                lit = "".join(tt)
                for shape, e in (
                    ("field+lit", JoinedStr(values=[_fv(Constant(value=t)), Constant(value=lit)])),
                    ("lit+field", JoinedStr(values=[Constant(value=lit), _fv(Constant(value=t))])),
                    ("lit+field+lit", JoinedStr(values=[Constant(value=lit), _fv(Constant(value=t)), Constant(value=lit)])),
                ):
                    judge(res, "c04:fq:%s:%s:%s" % (shape, ascii(t), ascii(lit)), e, sys.version_info >= (3, 12))
    elif kind == "corpus":
        corpus_shard(res, shard[1])
    return res


QSIG = ["'", '"', "\\", "{", "}", "\n", "a"]
FQ_T = ["'", '"', "a", "\\", "\n", "{"]
BSIG = [b"'", b'"', b"\\", b"\n", b"\r", b"\0", b"a", b"\xff", b"{"]


def shards(tier):
    maxlen = 3 if tier == "quick" else 4
    out = [("sigma0",), ("bytes",), ("num",)]
    for first in BSIG:
        out.append(("bsigma", first, 4 if tier == "quick" else 5))
    for ctx in STR_CONTEXTS:
        for first in QSIG:
            out.append(("qsigma", ctx, maxlen + 1, first))
    for ctx in STR_CONTEXTS:
        for first in SIGMA:
            out.append(("sigma", ctx, maxlen, first))
        out.append(("cp", ctx))
    depth = 2 if tier == "quick" else 3
    k = 8 if tier == "quick" else 64
    for r in range(k):
        out.append(("fshape", depth, r, k))
    for first in SIGMA:
        out.append(("nest", first))
    for n in (0, 1, 2):
        for tt in itertools.product(FQ_T, repeat=n):
            out.append(("fq", "".join(tt)))
    for ch in core.chunked(c03.corpus_files(), 12):
        out.append(("corpus", ch))
    return out


def main(tier, seed, collect=None):
    t0 = time.time()
    total = core.run_shards(run_shard, shards(tier), seed=seed, pid=PID)
    other_hosts = core.run_on_hosts(PID, ["py310", "py311", "py313"], "quick", seed, total) if tier == "thorough" else []

    c = total.c
    cov = {
        "converter_hosts": [core.HOST] + other_hosts,
        "evaluations": c["literals"],
        "distinct_nontrivial": c["in_scope"],
        "rule": "each case is a distinct literal-bearing tree (distinct derivation key); non-trivial = in scope, i.e. some source text "
        "denotes it (by construction for plain/bytes/f-literal contexts and corpus literals, else witnessed by an ast.unparse round trip)",
        "exhaustive": True,
        "sigma": [ascii(x) for x in SIGMA],
        "sigma_max_length": 3 if tier == "quick" else 4,
        "contexts": list(STR_CONTEXTS) + list(BYTES_CONTEXTS),
        "code_points": "0..0x2FF + %d boundary points, 3 forms each" % len(BOUNDARY),
        "fshape_depth": 2 if tier == "quick" else 3,
        "out_of_scope": c["out_of_scope_no_text_parses_to_it"],
        "corpus_files": c["corpus_files"],
        "states": c["literals"],
        "transitions": c["literals"],
        "traces_validated_against_impl": c["in_scope"],
    }
    assumptions = [
        "ast.parse of CPython %s defines the value a literal text denotes" % core.HOST,
        "a physical line break is '\\n' or '\\r' (what Python's tokenizer treats as a newline)",
        "below 3.12 a SyntaxError('Back slash ...') raised by the unparser is the documented refusal, not a violation",
    ]
    return core.finish(PID, tier, seed, LEVEL, total, cov, assumptions, t0, collect)


def replay(payload):
    key = payload["key"]
    res = core.ShardResult()
    for sh in shards("thorough"):
        if sh[0] == "corpus" and not key.startswith("c04:corpus"):
            continue
        if sh[0] == "sigma" and not key.startswith("c04:sigma:%s:%s" % (sh[1], ascii(sh[3])[:-1])):
            continue
        if sh[0] != "sigma" and sh[0] != "corpus" and not key.startswith("c04:" + sh[0].rstrip("0")):
            continue
        r = run_shard(sh)
        for f in r.fails:
            if f[0] == key:
                print("still failing:", f[0], f[3], f[4], (f[5] or {}).get("text"))
                return 1
    print("not reproduced:", key)
    return 0

"""C07 - each source subexpression is evaluated once, in Python's order (E1 x E2, model checking).

Templates: every statement form with EVERY subexpression replaced by a logging probe p(i); probe
           results are recorder objects that log the data-model operations performed on them
           (getattr/setattr/getitem/setitem/iter/next/call/binary and in-place operators/bool/
           format) through real class-level methods, so helper calls the lowering may add (hasattr,
           tuple(), iter() on its own wrapper) are not mistaken for source evaluations.
Env (E2) : truthiness of every condition/comparison/boolean operand, and "the loaded operand has /
           lacks the in-place method" are answered by the scheduler; every schedule is explored.
Placement: module, function body, class body.  x 8 option combinations.
Oracle   : ordered log of probe identifiers and recorder operations identical to CPython's.
"""
import itertools
import time

from .. import core, e2

PID = "C07"
LEVEL = "model_checking"

OPS = ["+", "-", "*", "@", "/", "//", "%", "**", "<<", ">>", "&", "^", "|"]
_DUNDER = {"+": "add", "-": "sub", "*": "mul", "@": "matmul", "/": "truediv", "//": "floordiv", "%": "mod", "**": "pow", "<<": "lshift", ">>": "rshift", "&": "and", "^": "xor", "|": "or"}


def make_ns(env):
    T = env.trace
    counter = [0]

    def lab(v):
        if isinstance(v, Rec):
            return v._l
        if isinstance(v, slice):
            return ("slice", lab(v.start), lab(v.stop), lab(v.step))
        if isinstance(v, tuple):
            return ("tuple",) + tuple(lab(x) for x in v)
        if isinstance(v, list):
            return ("list",) + tuple(lab(x) for x in v)
        if isinstance(v, dict):
            return ("dict",) + tuple((lab(k), lab(x)) for k, x in v.items())
        if isinstance(v, (set, frozenset)):
            return ("set",) + tuple(sorted(repr(lab(x)) for x in v))
        if type(v).__name__ == "generator":
            return ("generator",)  # its repr carries a qualified name, which C07 does not observe
        if isinstance(v, type):
            return ("class", v.__name__)
        if callable(v):
            return ("callable",)
        return repr(v)

    def fresh(parent, how, spec=0):
        counter[0] += 1
        return mk(("d", parent, how), spec)

    class Rec:
        def __init__(self, l, spec=0):
            object.__setattr__(self, "_l", l)
            object.__setattr__(self, "_spec", spec)

        def __getattr__(self, name):
            if name.startswith("__") and name.endswith("__"):
                raise AttributeError(name)
            env.tick()
            T.append(("getattr", self._l, name))
            return loaded(self._l, "." + name)

        def __setattr__(self, name, value):
            T.append(("setattr", self._l, name, lab(value)))

        def __getitem__(self, k):
            env.tick()
            T.append(("getitem", self._l, lab(k)))
            return loaded(self._l, ("[]", lab(k)))

        def __setitem__(self, k, v):
            T.append(("setitem", self._l, lab(k), lab(v)))

        def __iter__(self):
            T.append(("iter", self._l))
            spec = self._spec if isinstance(self._spec, tuple) else (0, 0)
            me = self

            def g():
                for i, s in enumerate(spec):
                    env.tick()
                    T.append(("next", me._l, i))
                    yield mk(("item", me._l, i), s)
                T.append(("next", me._l, "stop"))

            return g()

        def keys(self):
            T.append(("keys", self._l))
            return ["kx"]

        def __call__(self, *a, **k):
            env.tick()
            T.append(("call", self._l, lab(a), lab(k)))
            return mk(("ret", self._l))

        def __bool__(self):
            a = env.choose(2, ("bool", self._l))
            T.append(("bool", self._l, a))
            return bool(a)

        def __repr__(self):
            T.append(("repr", self._l))
            return "R"

        def __str__(self):
            T.append(("str", self._l))
            return "S"

        def __format__(self, spec):
            T.append(("format", self._l, spec))
            return "F"

        def __hash__(self):
            return 1

        def __eq__(self, o):
            T.append(("cmp", "==", self._l, lab(o)))
            return mk(("cmpres", self._l))

        def __lt__(self, o):
            T.append(("cmp", "<", self._l, lab(o)))
            return mk(("cmpres", self._l))

        def __contains__(self, o):
            T.append(("contains", self._l, lab(o)))
            return True

        def __neg__(self):
            T.append(("neg", self._l))
            return mk(("neg", self._l))

    def _bin(name):
        def f(self, o):
            T.append(("binop", name, self._l, lab(o)))
            return mk(("res", name, self._l))

        return f

    def _ibin(name):
        def f(self, o):
            T.append(("iop", name, self._l, lab(o)))
            return mk(("ires", name, self._l))

        return f

    for sym, nm in _DUNDER.items():
        setattr(Rec, "__%s__" % nm, _bin(nm))
        setattr(Rec, "__r%s__" % nm, _bin("r" + nm))

    class RecIn(Rec):
        pass

    for sym, nm in _DUNDER.items():
        setattr(RecIn, "__i%s__" % nm, _ibin(nm))

    def mk(l, spec=0):
        return Rec(l, spec)

    def loaded(parent, how):
        # the scheduler decides whether the loaded operand has the in-place methods
        a = env.choose(2, ("inplace?", parent, how))
        T.append(("loaded", parent, how, a))
        return (RecIn if a else Rec)(("ld", parent, how))

    def p(i, spec=0):
        env.tick()
        T.append(("p", i))
        return Rec(("p", i), spec)

    def pv(i):
        """prelude variable: in-place capability decided by the scheduler"""
        a = env.choose(2, ("inplace?", "pv", i))
        T.append(("pv", i, a))
        return (RecIn if a else Rec)(("pv", i))

    def m(i):
        env.tick()
        T.append(("m", i))

    def pd(i):
        env.tick()
        T.append(("pd", i))

        def deco(obj):
            T.append(("apply", i, "class" if isinstance(obj, type) else "function" if callable(obj) else lab(obj)))
            return obj

        return deco

    def pc(i):
        env.tick()
        T.append(("pc", i))

        class Base:
            def __init_subclass__(cls, **kw):
                # consumes class keywords; WHEN the hook runs relative to the class body is a
                # class-creation detail outside C07 (not a source subexpression): not logged
                pass

        Base.__name__ = "B%d" % i
        return Base

    def pm(i):
        env.tick()
        T.append(("pm", i))

        class Meta(type):
            def __new__(mcs, name, bases, ns, **kw):
                return super().__new__(mcs, name, bases, ns)

            def __init__(cls, name, bases, ns, **kw):
                super().__init__(name, bases, ns)

        return Meta

    return {"p": p, "pv": pv, "m": m, "pd": pd, "pc": pc, "pm": pm}


# --------------------------------------------------------------------------- templates
def templates(tier):
    """yield (key, statement source, prelude source)"""
    V = "p(0)"
    # ---- assignment target shapes
    yield "asg:name", "x = p(0)", ""
    yield "asg:attr", "p(1).a = p(0)", ""
    yield "asg:sub", "p(1)[p(2)] = p(0)", ""
    for mask in range(8):
        lo = "p(2)" if mask & 1 else ""
        up = "p(3)" if mask & 2 else ""
        st = ":p(4)" if mask & 4 else ""
        yield "asg:slice%d" % mask, "p(1)[%s:%s%s] = p(0)" % (lo, up, st), ""
    yield "asg:subtuple", "p(1)[p(2), p(3)] = p(0)", ""
    yield "asg:subslicetuple", "p(1)[p(2):p(3), p(4)] = p(0)", ""
    yield "asg:attrchain", "p(1).a.b[p(2)].c = p(0)", ""
    yield "asg:tuple2", "x, y = p(0, (0, 0))", ""
    yield "asg:tuple-attr-sub", "p(1).a, p(2)[p(3)] = p(0, (0, 0))", ""
    yield "asg:list-attr-sub", "[p(1).a, p(2)[p(3):p(4)]] = p(0, (0, 0))", ""
    yield "asg:nested", "(p(1).a, (p(2).b, x)), y = p(0, ((0, (0, 0)), 0))", ""
    yield "asg:nested3", "p(1).a, (p(2).b, (p(3).c, p(4)[p(5)])) = p(0, (0, (0, (0, 0))))", ""
    yield "asg:star0", "*x, p(1).a = p(0, (0, 0, 0))", ""
    yield "asg:star1", "p(1).a, *x = p(0, (0, 0, 0))", ""
    yield "asg:starmid", "p(1).a, *p(2).b, p(3).c = p(0, (0, 0, 0, 0))", ""
    yield "asg:starnested", "p(1).a, (*p(2).b, p(3).c) = p(0, (0, (0, 0, 0)))", ""
    yield "asg:chain2", "x = y = p(0)", ""
    yield "asg:chain-attr", "p(1).a = p(2)[p(3)] = x = p(0)", ""
    yield "asg:chain-name-attr", "x = p(1).a = p(0)", ""
    yield "asg:chain-tuple", "p(1).a, p(2).b = p(3).c = p(0, (0, 0))", ""
    yield "asg:chain3-sub", "p(1)[p(2)] = p(3)[p(4)] = p(5)[p(6)] = p(0)", ""
    yield "asg:chain-unpack-first", "x, y = z = p(0, (0, 0))\nm(1)\nz.probe", ""
    yield "asg:chain-unpack-mid", "p(1).a = (x, y) = p(2)[p(3)] = p(0, (0, 0))", ""
    yield "asg:chain-two-unpacks", "x, y = [p(1).a, *z] = p(0, (0, 0))", ""
    yield "asg:ann-name", "x: int = p(0)", ""
    yield "asg:ann-attr", "p(1).a: int = p(0)", ""
    yield "asg:unpack-sub-rhs", "x, y = p(1)[p(2)]", ""
    yield "asg:unpack-attr-rhs", "x, (y, z) = p(1).a", ""
    yield "asg:unpack-call-rhs", "x, *y = p(1)(p(2))", ""
    yield "asg:value-call", "p(1).a = p(2)(p(3))", ""
    yield "asg:value-attr-of-target", "p(1).a = p(2).b + p(3)", ""
    # ---- every syntactic kind of assigned value x every single-target kind (a lowering may decide by the KIND of
    #      the value whether it needs a temporary: constants, names, lambdas with defaults, displays, ...)
    values = {
        "const": "7", "none": "None", "name": "v0", "lambda-defaults": "lambda a=p(8), *, b=p(9): 0", "lambda-plain": "lambda: p(8)",
        "fstring": "f'{p(8)}-{p(9)!r}'", "list": "[p(8), p(9)]", "tuple": "(p(8), p(9))", "dict": "{p(8): p(9)}", "set": "{p(8)}",
        "listcomp": "[p(8) for _ in (1,)]", "genexp": "(p(8) for _ in (1,))", "ifexp": "p(8) if p(7) else p(9)", "boolop": "p(8) or p(9)",
        "walrus": "(w := p(8))", "attr": "p(8).v", "sub": "p(8)[p(9)]", "call": "p(8)(p(9))", "binop": "p(8) + p(9)", "unary": "-p(8)",
        "compare": "p(8) < p(9)", "starred": "*p(8, (0,)), p(9)", "slice-load": "p(8)[p(9):]",
    }
    targets = {
        "name": ("x", ""), "attr": ("p(1).a", ""), "sub": ("p(1)[p(2)]", ""), "slice": ("p(1)[p(2):p(3)]", ""), "ann-attr": ("p(1).a: int", ""),
        "ann-sub": ("p(1)[p(2)]: int", ""), "chain": ("p(1).a = p(2)[p(3)]", ""), "attr-of-name": ("o.a", "o = p(99)"), "sub-of-name": ("o[p(2)]", "o = p(99)"),
    }
    for vn, v in values.items():
        for tn, (t, pre) in targets.items():
            if vn == "starred" and tn.startswith("ann"):
                continue  # an unparenthesised starred tuple is not allowed in an annotated assignment before 3.8+/3.11 rules
            yield "asgv:%s:%s" % (tn, vn), "%s = %s" % (t, v), "\n".join(x for x in (pre, "v0 = p(98)" if vn == "name" else "") if x)
    # ---- augmented assignment: 13 operators x 4 target kinds (in-place capability by the scheduler)
    ops = OPS if tier == "thorough" else OPS
    for op in ops:
        nm = _DUNDER[op]
        yield "aug:name:" + nm, "x %s= p(0)" % op, "x = pv(9)"
        yield "aug:attr:" + nm, "p(1).a %s= p(0)" % op, ""
        yield "aug:sub:" + nm, "p(1)[p(2)] %s= p(0)" % op, ""
        yield "aug:slice:" + nm, "p(1)[p(2):p(3)] %s= p(0)" % op, ""
    yield "aug:attrchain", "p(1).a.b += p(0)", ""
    yield "aug:subsub", "p(1)[p(2)][p(3)] -= p(0)", ""
    yield "aug:subtuple", "p(1)[p(2), p(3)] *= p(0)", ""
    yield "aug:fullslice", "p(1)[p(2):p(3):p(4)] |= p(0)", ""
    yield "aug:name-attrchain", "x.a.b += p(0)", "x = pv(9)"
    yield "aug:name-attr-sub", "x.a[p(2)] -= p(0)", "x = pv(9)"
    yield "aug:name-attr-slice", "x.a.b[p(2):p(3)] *= p(0)", "x = pv(9)"
    yield "asg:ann-sub", "p(1)[p(2)]: int = p(0)", ""
    yield "asg:ann-slice", "p(1)[p(2):p(3)]: 'T' = p(0)", ""
    yield "aug:name-sub", "x[p(2)] += p(0)", "x = pv(9)"
    yield "aug:name-attr", "x.a += p(0)", "x = pv(9)"
    # ---- calls and expression statements
    yield "expr:probe", "p(1)", ""
    yield "call:pos", "p(1)(p(2), p(3))", ""
    yield "call:kw", "p(1)(p(2), k=p(3), j=p(4))", ""
    yield "call:star", "p(1)(p(2), *p(3, (0, 0)), p(4))", ""
    yield "call:starstar", "p(1)(p(2), **p(3), k=p(4))", ""
    yield "call:kwstar", "p(1)(k=p(2), *p(3, (0,)))", ""
    yield "call:method", "p(1).f(p(2))[p(3)](p(4)).g", ""
    # ---- def: defaults and decorators
    nmax = 2
    for nd in range(nmax + 1):
        for nk in range(nmax + 1):
            for ndec in range(nmax + 1):
                decs = "".join("@pd(%d)\n" % (10 + i) for i in range(ndec))
                pos = ", ".join("a%d=p(%d)" % (i, 20 + i) for i in range(nd))
                kws = ", ".join("k%d=p(%d)" % (i, 30 + i) for i in range(nk))
                sig = ", ".join(x for x in (pos, ("*, " + kws) if kws else "") if x)
                yield "def:%d%d%d" % (nd, nk, ndec), "%sdef f(%s):\n    return p(40)\nm(41)\nf()" % (decs, sig), ""
    yield "def:posonly", "@pd(10)\ndef f(a=p(1), /, b=p(2), *c, d=p(3), **e):\n    pass", ""
    yield "def:lambda-default", "f = lambda a=p(1), *, b=p(2): p(3)\nm(4)\nf()", ""
    # ---- class: bases, metaclass, keywords, decorators
    for nb in range(3):
        for meta in (0, 1):
            for nkw in range(3):
                for ndec in range(3):
                    if nkw and nb == 0 and not meta:
                        continue  # class keywords need a consumer (__init_subclass__ of a base / metaclass)
                    if tier == "quick" and nb + nkw + ndec > 4:
                        continue
                    decs = "".join("@pd(%d)\n" % (10 + i) for i in range(ndec))
                    parts = ["pc(%d)" % (20 + i) for i in range(nb)]
                    kwparts = ["kw%d=p(%d)" % (i, 30 + i) for i in range(nkw)]
                    if meta:
                        kwparts.insert(min(1, len(kwparts)), "metaclass=pm(50)")
                    hdr = ", ".join(parts + kwparts)
                    yield "class:%d%d%d%d" % (nb, meta, nkw, ndec), "%sclass K(%s):\n    z = p(60)\nm(61)" % (decs, hdr), ""
    yield "class:starbases", "class K(*p(1, ())):\n    pass", ""
    # ---- headers
    yield "if:elif", "if p(1):\n    m(2)\nelif p(3):\n    m(4)\nelse:\n    m(5)", ""
    yield "if:elif-noelse", "if p(1):\n    m(2)\nelif p(3):\n    m(4)\nm(5)", ""
    yield "if:elif-elif-noelse", "if p(1):\n    m(2)\nelif p(3):\n    m(4)\nelif p(5):\n    m(6)\nm(7)", ""
    yield "if:else-if-noelse", "if p(1):\n    m(2)\nelse:\n    if p(3):\n        m(4)\nm(5)", ""
    yield "if:else-boolop-stmt", "if p(1):\n    m(2)\nelse:\n    p(3) and p(4)\nm(5)", ""
    yield "if:else-orstmt", "if p(1):\n    m(2)\nelse:\n    p(3) or p(4)\nm(5)", ""
    yield "if:body-boolop-stmt", "if p(1):\n    p(2) or p(3)\nelif p(4):\n    p(5) and p(6)\nelse:\n    p(7) or p(8)\nm(9)", ""
    yield "if:not-and-or", "if not p(1) and p(2) or p(3):\n    m(4)", ""
    yield "while:hdr", "n = 0\nwhile p(1):\n    m(2)\n    n = n + 1\n    if n > 1:\n        break\nelse:\n    m(3)", ""
    yield "while:cmp", "n = 0\nwhile p(1) < p(2):\n    n = n + 1\n    if n > 1:\n        break", ""
    yield "while:boolop", "n = 0\nwhile p(1) and p(2) or p(3):\n    n = n + 1\n    if n > 1:\n        break", ""
    yield "while:boolop-nobreak", "while p(1) and p(2):\n    m(3)", ""
    yield "while:not", "while not p(1):\n    m(2)\n    break", ""
    yield "if:boolop-else", "if p(1) or p(2):\n    m(3)\nelse:\n    m(4)", ""
    yield "if:cmpchain", "if p(1) < p(2) < p(3):\n    m(4)\nelse:\n    m(5)", ""
    yield "if:ifexp-test", "if (p(1) if p(2) else p(3)):\n    m(4)\nelse:\n    m(5)", ""
    yield "for:name", "for x in p(1, (0, 0)):\n    m(2)\nelse:\n    m(3)", ""
    yield "for:attr-target", "for p(1).a in p(2, (0, 0)):\n    m(3)", ""
    yield "for:sub-target", "for p(1)[p(2)] in p(3, (0, 0)):\n    m(4)", ""
    yield "for:tuple-target", "for p(1).a, (x, *p(2).b) in p(3, ((0, (0, 0, 0)), (0, (0,)))):\n    m(4)", ""
    yield "for:break", "for x in p(1, (0, 0, 0)):\n    if p(2):\n        break\n    m(3)\nelse:\n    m(4)", ""
    yield "for:walrus-iter", "for x in (w := p(1, (0, 0))):\n    m(2)", ""
    yield "for:walrus-iter-continue", "for x in (w := p(1, (0, 0))):\n    if p(2):\n        continue\n    m(3)", ""
    yield "for:walrus-iter-else", "for x in (w := p(1, (0, 0))):\n    m(2)\nelse:\n    m(3)", ""
    yield "for:walrus-iter-continue-else", "for x in (w := p(1, (0, 0))):\n    if p(2):\n        continue\n    m(3)\nelse:\n    m(4)", ""
    yield "for:walrus-iter-break", "for x in (w := p(1, (0, 0, 0))):\n    if p(2):\n        break\n    m(3)\nelse:\n    m(4)", ""
    yield "for:walrus-iter-return", "def f():\n    for x in (w := p(1, (0, 0))):\n        if p(2):\n            return p(3)\n    return p(4)\nf()", ""
    yield "for:walrus-in-call-iter", "for x in p(1)(k=(w := p(2))).f:\n    m(3)\n    break", ""
    yield "while:walrus", "n = 0\nwhile (w := p(1)):\n    m(2)\n    n = n + 1\n    if n > 1:\n        break", ""
    yield "while:walrus-cmp", "n = 0\nwhile (w := p(1)) < p(2):\n    n = n + 1\n    if n > 1:\n        break\nelse:\n    m(3)", ""
    yield "for:iter-call", "for x in p(1)(p(2)).f:\n    m(3)", ""
    yield "return:value", "def f():\n    return p(1)(p(2))\nf()", ""
    yield "return:in-loop", "def f():\n    for x in p(1, (0, 0)):\n        if p(2):\n            return p(3)\n    return p(4)\nf()", ""
    # ---- expressions with internal order / short circuit
    yield "expr:cmpchain", "p(1) < p(2) < p(3) == p(4)", ""
    yield "expr:boolop", "p(1) and p(2) or p(3) and not p(4)", ""
    yield "expr:ifexp", "p(1) if p(2) else p(3)", ""
    yield "expr:ifexp-nested", "(p(1) if p(2) else p(3)) if p(4) else (p(5) if p(6) else p(7))", ""
    yield "expr:listcomp", "[p(1) for x in p(2, (0, 0)) if p(3) for y in p(4, (0,)) if p(5)]", ""
    yield "expr:dictcomp", "{p(1): p(2) for x in p(3, (0, 0)) if p(4)}", ""
    yield "expr:genexp", "list(p(1) for x in p(2, (0, 0)) if p(3))", ""
    yield "expr:fstring", "f'{p(1):{p(2)}} {p(3)!r} {p(4)!s} {p(5):>{p(6)}.{p(7)}} {p(8)!a}'", ""
    yield "expr:walrus", "(w := p(1)).a[(v := p(2))](w, v)", ""
    yield "expr:dict-display", "{p(1): p(2), **p(3), p(4): p(5)}", ""
    yield "expr:binops", "p(1) + p(2) * p(3) - p(4) ** p(5) ** p(6)", ""
    yield "expr:slice-load", "p(1)[p(2):p(3), p(4)::p(5)]", ""
    yield "expr:lambda-call", "(lambda a, b=p(1): a(p(2)))(p(3))", ""
    yield "expr:contains", "p(1) in p(2) not in p(3)", ""
    yield "expr:neg", "-p(1) + -p(2)", ""


PLACEMENTS = {
    "module": lambda pre, st: (pre + "\n" if pre else "") + st + "\n",
    "function": lambda pre, st: "def F():\n" + _ind((pre + "\n" if pre else "") + st) + "\nF()\n",
    "class": lambda pre, st: "class KK:\n" + _ind((pre + "\n" if pre else "") + st) + "\n",
}


def _ind(s):
    return "\n".join("    " + l for l in s.split("\n"))


def run(code, mode, choices, strict=False, arities=None):
    env = e2.Env(choices, strict=strict, arities=arities, budget=600)
    g = make_ns(env)
    g["__name__"] = "__main__"
    try:
        with core.time_limit(10):
            (exec if mode == "exec" else eval)(code, g)
        status = "ok"
    except e2.Horizon:
        status = "horizon"
    except e2.Divergence as d:
        status = "divergence:" + str(d)
    except core.Timeout:
        status = "timeout"
    except RecursionError:
        status = "exc:RecursionError"
    except Exception as e:
        status = "exc:%s:%s" % (type(e).__name__, core.scrub(e))
    return status, env


def check_template(res, key, src, cfgs):
    try:
        code_src = compile(src, "<s>", "exec")
    except SyntaxError:
        res.c["skipped:cpython_rejects_source"] += 1
        return
    res.c["templates"] += 1
    outs = []
    for ci in cfgs:
        try:
            text = core.convert(src, ci)
        except Exception as e:
            res.fail(key, ci, "rejects", "%s: %s" % (type(e).__name__, e), {"source": src})
            continue
        why = core.is_single_line_expr(text)
        if why:
            res.fail(key, ci, "malformed", why, {"source": src, "output": text})
            continue
        outs.append((ci, compile(text, "<o>", "eval"), text))
    failed = set()
    seen_traces = set()

    def on_schedule(status, env, full):
        if status == "horizon":
            res.c["schedules_beyond_horizon"] += 1
            return
        if status != "ok":
            res.c["skipped:reference_raises"] += 1
            res.notes["reference raises: " + status[:70]] += 1
            return
        res.c["schedules"] += 1
        seen_traces.add(tuple(map(repr, env.trace)))
        for ci, code, text in outs:
            if ci in failed:
                continue
            st2, env2 = run(code, "eval", full, strict=True, arities=env.points)
            res.c["replays"] += 1
            if st2 == "ok" and env2.pos != len(full):
                st2 = "divergence: %d of %d recorded answers consumed" % (env2.pos, len(full))
            if st2 != "ok" or env2.trace != env.trace:
                failed.add(ci)
                n = 0
                while n < min(len(env.trace), len(env2.trace)) and env.trace[n] == env2.trace[n]:
                    n += 1
                res.fail(
                    key, ci, "misbehaves",
                    "schedule %r: status %s; logs differ at step %d: expected %r got %r"
                    % (full, st2, n, env.trace[n] if n < len(env.trace) else None, env2.trace[n] if n < len(env2.trace) else None),
                    {"source": src, "output": text, "schedule": full, "expected_log": [repr(x) for x in env.trace], "actual_log": [repr(x) for x in env2.trace], "actual_status": st2},
                )

    nodes, trans, execs, capped = e2.explore(lambda pfx: run(code_src, "exec", pfx), on_schedule)
    res.c["choice_nodes"] += nodes + 1
    res.c["transitions"] += trans
    res.c["ref_executions"] += execs
    res.c["distinct_logs"] += len(seen_traces)
    res.sample({"key": key, "source": src, "schedules": execs}, 1)


def run_shard(shard):
    tier, r, k, cfgs = shard
    res = core.ShardResult()
    idx = 0
    for tkey, st, pre in templates(tier):
        for pl, wrap in PLACEMENTS.items():
            idx += 1
            if idx % k != r:
                continue
            check_template(res, "c07:%s:%s" % (pl, tkey), wrap(pre, st), cfgs)
    return res


def main(tier, seed, collect=None):
    t0 = time.time()
    k = 64
    total = core.run_shards(run_shard, [(tier, r, k, core.ALL_CFG) for r in range(k)], seed=seed, pid=PID)
    other_hosts = core.run_on_hosts(PID, ["py310", "py311", "py313"], "quick", seed, total) if tier == "thorough" else []

    c = total.c
    cov = {
        "states": c["choice_nodes"],
        "transitions": c["transitions"],
        "traces_validated_against_impl": c["replays"],
        "evaluations": c["replays"] + c["ref_executions"],
        "distinct_nontrivial": c["templates"],
        "rule": "every statement template x placement is a case (distinct key); all are non-trivial (each contains at least one probe); "
        "states/transitions = nodes/answers of the environment choice tree (truthiness, in-place capability) of the reference run",
        "exhaustive": True,
        "templates": c["templates"],
        "complete_schedules": c["schedules"],
        "distinct_reference_logs": c["distinct_logs"],
        "placements": list(PLACEMENTS),
    }
    assumptions = [
        "CPython %s is the reference for evaluation order" % core.HOST,
        "annotations are not probed (the property's list of subexpressions does not name them; the lowering drops them by design)",
        "class-statement probes return real classes/metaclasses; __mro_entries__ and namespace-observing metaclass hooks are outside the fragment",
    ]
    return core.finish(PID, tier, seed, LEVEL, total, cov, assumptions, t0, collect)


def replay(payload):
    src = (payload.get("extra") or {}).get("source")
    if src is None:
        print("no source in replay file")
        return 2
    res = core.ShardResult()
    check_template(res, payload["key"], src, [payload["cfg"]] if payload.get("cfg") is not None else core.ALL_CFG)
    for f in res.fails:
        print("still failing:", f[0], core.cfg_name(f[1]), f[3], f[4])
    return 1 if res.fails else 0

"""C10 - conversion is a pure function of (source, options) up to fresh-name choice
(E3 history exploration, model checking).

Actions : new options object | set(o, option, value) for 3 options x (2 legal + 2 illegal values, one of them legal for another option) |
          conv(p, o | None, rng) with rng in {keep, reseed, collide0, collide1} (collide_j: in that
          conversion draw j+2 of the random source repeats draw j once)
          over <= 2 live option objects and a pool of 4 programs.
Explored: (a) breadth-first over ALL histories up to the depth bound, deduplicated by the canonical
          state (reference model: believed option values per object) x (implementation hidden
          state: structural hash of every module-/class-level mutable object, descriptor, cache
          and closure cell reachable from the oneliner.* modules, plus vars() of the live option
          objects); (b) every history of length <= N over the core alphabet WITHOUT deduplication
          (so hidden state the hash cannot see is still exercised).
          Each history is replayed on fresh real objects in a fork of a pristine process.
Oracle  : every conv result == the result of the same call in a FRESH PROCESS for (program, that
          object's own believed option values; defaults for None), compared after first-occurrence
          renaming of __ol_ names; the fresh-process references must agree under PYTHONHASHSEED
          0..3; an illegal set raises ValueError and changes nothing.
"""
import ast
import collections
import hashlib
import itertools
import os
import pickle
import random
import subprocess
import sys
import time
import types

from .. import core

PID = "C10"
LEVEL = "model_checking"

# appended to the last program: the user rebinds every builtin the generated code calls by bare name (the list
# C09 reads from generated ASTs) and then uses the features whose lowering calls them (for/break -> iterator preset,
# slices, star-unpacking, import, class with implicit wrappers), so that a conversion which has to *protect* those
# builtins is part of every history: state it leaves behind in shared preset trees shows in the next conversion.
_SHADOW = (
    "".join("%s = %s\n" % (b, b) for b in ["dict", "setattr", "hasattr", "iter", "next", "slice", "tuple", "list", "globals", "locals", "__import__", "classmethod", "staticmethod"])
    + "for q in [1, 2, 3]:\n    if q == 2:\n        break\n    q += 0\nelse:\n    q = -1\n"
    + "u, *v = [1, 2, 3][0:2]\nimport os.path\nclass W:\n    def __init_subclass__(cls):\n        pass\n    def __class_getitem__(cls, i):\n        return i\n"
    + "def _g():\n    global zz\n    zz = [0, 1, 2]\n    zz[0:2] = [9]\n    return zz\nclass _O:\n    pass\n_o = _O()\n_o.a = [1]\n_o.a += [2]\n"
    + "class _B:\n    def __init_subclass__(cls, **k):\n        cls.k = sorted(k)\nclass _D(_B, **{'t': 1}):\n    pass\n"
    + "print(q, u, v, os.path.sep == os.sep, W[3], _g(), zz, _o.a, _D.k)\n"
)
PROGRAMS = [
    # ends with an expression deep enough to make ast.unparse overflow the stack, so that every conversion of it with the
    # default unparser goes through the converter's fallback path
    "x = 1\nif x:\n    print(x)\nelse:\n    print(0)\nprint(2)\ny = " + " + ".join(["1"] * 1200) + "\nprint(y)\n",
    # the same identifiers in different roles, first as variables that need a special load (nonlocal cell, free name of a
    # class body, shadowed global) read inside comprehensions/lambdas, then as comprehension targets: any name-keyed state
    # that survives a conversion changes the text of the next conversion of this very program
    "gamma = 'g'\ndef f(alpha, beta, gamma, delta):\n    def g():\n        nonlocal alpha\n        alpha += 0\n        class C:\n            r = [beta * k for k in range(2)]\n"
    "        def h():\n            global gamma\n            return [gamma for k in range(1)], (lambda: gamma)()\n"
    "        return alpha + beta + delta + sum([alpha * k for k in range(2)]) + sum(C.r), h()\n    return g()\nprint(f(1, 2, 3, 4))\n"
    "print([alpha for alpha in range(2)], {beta: gamma for beta, gamma in [(1, 2)]}, gamma)\n",
    "i = 0\nwhile i < 5:\n    k = 0\n    while k < 3:\n        k += 1\n        if k == 2:\n            break\n        k += 0\n    i += 1\n    if i == 3:\n        break\n    i += 0\nfor j in range(3):\n    for m in range(2):\n        if m:\n            break\n        m += 0\n    if j:\n        break\n    j += 0\nimport os\nprint(i, j, k, m)\n",
    "a, (b, c) = 1, (2, 3)\n(d, e), g = (4, 5), 6\nclass K:\n    v = a\n    __p = 7\n    def __hid(self):\n        return self.__p\n    class __In:\n        z = 1\n    def m(self):\n        return self.v, self.__hid(), self.__In.z\ntype = 0\nprint(K().m(), b, c, d, e, g, f'{a!r:>{b}}')\n" + _SHADOW,
]
OPTIONS = ["unparser", "expr_wrapper", "if_style"]
LEGAL = {"unparser": ["ast.unparse", "oneliner"], "expr_wrapper": ["list", "chain_call"], "if_style": ["if_expr", "short_circuit"]}
DEFAULTS = ("ast.unparse", "chain_call", "if_expr")
ILLEGAL = {"unparser": ["bogus", "list"], "expr_wrapper": ["bogus", "if_expr"], "if_style": ["bogus", "oneliner"]}
RNG = ["keep", "reseed", "collide0", "collide1"]
MAXOBJ = 2


# --------------------------------------------------------------------------- hidden state
def _canon_hidden(v, depth=0, seen=None):
    import re

    if seen is None:
        seen = set()
    if depth > 8:
        return "deep"
    if v is None or isinstance(v, (bool, int, float, complex, bytes)):
        return repr(v)
    if isinstance(v, str):
        return "<id>" if re.fullmatch(r"[a-z]{10}", v) else ("<olname>" if v.startswith("__ol_") and re.search(r"_[a-z]{10}$", v) else repr(v))
    if id(v) in seen:
        return "cycle"
    seen = seen | {id(v)}
    if isinstance(v, (list, tuple)):
        return "[%s]" % ",".join(_canon_hidden(x, depth + 1, seen) for x in v)
    if isinstance(v, (set, frozenset)):
        return "{%s}" % ",".join(sorted(_canon_hidden(x, depth + 1, seen) for x in v))
    if isinstance(v, dict):
        return "{%s}" % ",".join(
            sorted("%s:%s" % (_canon_hidden(k, depth + 1, seen), _canon_hidden(x, depth + 1, seen)) for k, x in v.items())
        )
    if isinstance(v, ast.AST):
        return ast.dump(v)
    if isinstance(v, types.ModuleType):
        return "mod:" + v.__name__
    if isinstance(v, type):
        return "cls:" + v.__qualname__
    if callable(v) and hasattr(v, "cache_info"):
        try:
            return "lru:%r" % (tuple(v.cache_info()),)
        except Exception:
            return "lru:?"
    if isinstance(v, types.FunctionType):
        parts = []
        for c in v.__closure__ or ():
            try:
                cc = c.cell_contents
            except ValueError:
                continue
            if isinstance(cc, (list, dict, set)):
                parts.append(_canon_hidden(cc, depth + 1, seen))
        for d in v.__defaults__ or ():
            if isinstance(d, (list, dict, set)):
                parts.append(_canon_hidden(d, depth + 1, seen))
        return "fn(%s)" % ",".join(parts)
    d = getattr(v, "__dict__", None)
    if isinstance(d, dict) and type(v).__module__.startswith("oneliner"):
        return "%s(%s)" % (type(v).__name__, _canon_hidden(d, depth + 1, seen))
    if isinstance(v, (itertools.count,)):
        return repr(v)
    return "<%s>" % type(v).__name__


def hidden_state():
    """Structural digest of everything mutable that outlives a conversion."""
    parts = []
    for name in sorted(sys.modules):
        if name != "oneliner" and not name.startswith("oneliner."):
            continue
        mod = sys.modules[name]
        if mod is None:
            continue
        for k in sorted(vars(mod)):
            if k.startswith("__") and k.endswith("__"):
                continue
            v = vars(mod)[k]
            if isinstance(v, types.ModuleType):
                continue
            if isinstance(v, type):
                if not getattr(v, "__module__", "").startswith("oneliner") or v.__module__ != name:
                    continue
                for ck in sorted(vars(v)):
                    if ck.startswith("__") and ck.endswith("__"):
                        continue
                    cv = vars(v)[ck]
                    if isinstance(cv, (types.FunctionType, staticmethod, classmethod, property)):
                        f = cv if isinstance(cv, types.FunctionType) else getattr(cv, "__func__", None)
                        if isinstance(f, types.FunctionType):
                            s = _canon_hidden(f)
                            if s != "fn()":
                                parts.append("%s.%s.%s=%s" % (name, k, ck, s))
                        continue
                    parts.append("%s.%s.%s=%s" % (name, k, ck, _canon_hidden(cv)))
                continue
            if getattr(v, "__module__", name) not in (name, None) and isinstance(v, (types.FunctionType, type)):
                continue
            s = _canon_hidden(v)
            if s not in ("fn()",) and not s.startswith("<"):
                parts.append("%s.%s=%s" % (name, k, s))
    blob = "\n".join(parts)
    return hashlib.sha1(blob.encode("utf8", "backslashreplace")).hexdigest()[:12], blob


# --------------------------------------------------------------------------- history execution
class RngCtl:
    """Owns random.choices for one history (harness-side monkeypatch, no repo hook)."""

    def __init__(self):
        self.real = random.choices
        self.mode = None
        self.draws = []

    def install(self):
        ctl = self

        def choices(population, *a, **kw):
            n = len(ctl.draws)
            if ctl.mode is not None and n == ctl.mode + 2 and len(ctl.draws) > ctl.mode:
                r = list(ctl.draws[ctl.mode])
                ctl.draws.append(r)
                ctl.mode = None  # collide once, then the source behaves normally again
                return r
            r = ctl.real(population, *a, **kw)
            ctl.draws.append(list(r))
            return r

        random.choices = choices

    def begin(self, rng, seed):
        self.draws = []
        self.mode = None
        if rng == "reseed":
            random.seed(seed + 12345)
        elif rng == "collide0":
            self.mode = 0
        elif rng == "collide1":
            self.mode = 1


class Runner:
    """Replays actions on fresh real objects (lives in a forked child)."""

    def __init__(self, seed, want_blob=False):
        self.ol = core.ol()
        self.ctl = RngCtl()
        self.ctl.install()
        self.objs = []
        self.model = []
        self.seed = seed
        self.want_blob = want_blob

    def step(self, act):
        ol, objs, model = self.ol, self.objs, self.model
        outcome = None
        if act[0] == "new":
            objs.append(ol.config.Configs())
            model.append(list(DEFAULTS))
            outcome = ("new",)
        elif act[0] == "set":
            _, i, opt, val = act
            try:
                setattr(objs[i], opt, val)
                raised = None
            except ValueError:
                raised = "ValueError"
            except Exception as e:
                raised = type(e).__name__
            if val in LEGAL[opt]:
                model[i][OPTIONS.index(opt)] = val
            outcome = ("set", raised)
        elif act[0] == "conv":
            _, p, i, rng = act
            self.ctl.begin(rng, self.seed)
            try:
                with core.time_limit(20):
                    if i is None:
                        t = ol.convert_code_string(PROGRAMS[p])
                    else:
                        t = ol.convert_code_string(PROGRAMS[p], configs=objs[i])
                outcome = ("conv", "ok", core.norm_ol(t), t)
            except core.Timeout:
                outcome = ("conv", "timeout", "", "")
            except Exception as e:
                outcome = ("conv", "raised", "%s: %s" % (type(e).__name__, core.scrub(e)), "")
        h, blob = hidden_state()
        okey = tuple(tuple(sorted((k, repr(v)) for k, v in vars(o).items())) for o in objs)
        key = (tuple(tuple(m) for m in model), h, hashlib.sha1(repr(okey).encode()).hexdigest()[:8])
        return (outcome, [tuple(m) for m in model], key, blob if self.want_blob else None)


def exec_history(hist, seed, want_blob=False):
    """Replay a history on fresh real objects. Returns list of (outcome, model, state_key, blob)."""
    r = Runner(seed, want_blob)
    return [r.step(a) for a in hist]


def _in_fork(fn):
    """Run fn() in a forked child and return its pickled result."""
    r, w = os.pipe()
    pid = os.fork()
    if pid == 0:
        try:
            os.close(r)
            try:
                res = ("ok", fn())
            except BaseException:
                import traceback

                res = ("err", traceback.format_exc())
            with os.fdopen(w, "wb") as f:
                pickle.dump(res, f)
        finally:
            os._exit(0)
    os.close(w)
    with os.fdopen(r, "rb") as f:
        data = f.read()
    os.waitpid(pid, 0)
    if not data:
        raise core.HarnessError("forked history runner died")
    st, res = pickle.loads(data)
    if st != "ok":
        raise core.HarnessError("history runner failed: %s" % res)
    return res


def run_forked(hist, seed, want_blob=False):
    """fresh = a fork of this (pristine) process: oneliner imported, nothing created or converted"""

    def body():
        random.seed(seed)
        return exec_history(hist, seed, want_blob)

    return _in_fork(body)


def expand_forked(hist, acts, seed):
    """Replay `hist` once in a fresh fork, then try every action of `acts` from that very state,
    each in its own grandchild (so the actions do not disturb one another).
    Returns [(prev_model, (outcome, model, key, blob)) per action]."""

    def body():
        random.seed(seed)
        r = Runner(seed)
        for a in hist:
            last = r.step(a)
        prev_model = [tuple(m) for m in r.model]
        out = []
        for a in acts:
            st = random.getstate()
            out.append((prev_model, _in_fork(lambda a=a: r.step(a))))
            random.setstate(st)
        return out

    return _in_fork(body)


def actions(model_objs, full=True):
    acts = []
    n = len(model_objs)
    if n < MAXOBJ:
        acts.append(("new",))
    for i in range(n):
        for opt in OPTIONS:
            for val in LEGAL[opt] + (ILLEGAL[opt] if full else ILLEGAL[opt][:1]):
                acts.append(("set", i, opt, val))
    for p in range(len(PROGRAMS)):
        for i in list(range(n)) + [None]:
            for rng in RNG if full else RNG[:1]:
                acts.append(("conv", p, i, rng))
    return acts


def hist_key(hist):
    def a(x):
        if x[0] == "new":
            return "new"
        if x[0] == "set":
            return "set(o%d.%s=%s)" % (x[1], x[2], x[3])
        return "conv(p%d,%s,%s)" % (x[1], "none" if x[2] is None else "o%d" % x[2], x[3])

    return "c10:" + ";".join(a(x) for x in hist)


# --------------------------------------------------------------------------- reference table
_REF_SNIPPET = r"""
import sys, json
sys.path.insert(0, sys.argv[1])
import oneliner, oneliner.config
src = sys.argv[2]
if sys.argv[3] == "none":
    t = oneliner.convert_code_string(src)
else:
    c = oneliner.config.Configs()
    c.unparser, c.expr_wrapper, c.if_style = sys.argv[3].split(",")
    t = oneliner.convert_code_string(src, configs=c)
sys.stdout.write(json.dumps(t))
"""


def _ref_one(args):
    p, vec, hs = args
    env = dict(os.environ, PYTHONHASHSEED=str(hs), PYTHONDONTWRITEBYTECODE="1")
    r = subprocess.run(
        [sys.executable, "-c", _REF_SNIPPET, core.REPO, PROGRAMS[p], "none" if vec is None else ",".join(vec)],
        capture_output=True, text=True, env=env, timeout=120,
    )
    if r.returncode != 0:
        return (p, vec, hs, None, r.stderr[-300:])
    import json

    return (p, vec, hs, core.norm_ol(json.loads(r.stdout)), None)


def reference_table():
    """(program, option vector | None) -> normalised text, from one fresh process per entry and hash seed"""
    from concurrent.futures import ThreadPoolExecutor

    vecs = [None] + [tuple(v) for v in itertools.product(*[LEGAL[o] for o in OPTIONS])]
    jobs = [(p, v, hs) for p in range(len(PROGRAMS)) for v in vecs for hs in (0, 1, 2, 3)]
    table = {}
    problems = []
    with ThreadPoolExecutor(core.NPROC) as ex:
        for p, v, hs, text, err in ex.map(_ref_one, jobs):
            if err is not None:
                problems.append(("c10:reference:p%d:%s:hashseed%d" % (p, v, hs), "rejects", "fresh-process conversion failed: " + err))
                continue
            k = (p, v)
            if k in table and table[k] != text:
                problems.append(("c10:reference:p%d:%s" % (p, v), "misbehaves", "fresh-process results differ between PYTHONHASHSEED values (seed %d)" % hs))
            table.setdefault(k, text)
    for p in range(len(PROGRAMS)):
        if (p, None) in table and table.get((p, DEFAULTS)) != table[(p, None)]:
            problems.append(("c10:reference:p%d:none" % p, "misbehaves", "fresh process: no-options result differs from default-options result"))
    return table, problems, len(jobs)


# --------------------------------------------------------------------------- oracle for the last step
_TABLE = None


def judge_step(act, outcome, model):
    fail = None
    if act[0] == "set":
        legal = act[3] in LEGAL[act[2]]
        if legal and outcome[1] is not None:
            fail = ("rejects", "legal set raised %s" % outcome[1])
        if not legal and outcome[1] != "ValueError":
            fail = ("misbehaves", "illegal value accepted" if outcome[1] is None else "illegal value raised %s, not ValueError" % outcome[1])
    elif act[0] == "conv":
        _, p, i, rng = act
        want = _TABLE.get((p, None if i is None else tuple(model[i])))
        if outcome[1] != "ok":
            fail = ("rejects", "conversion %s: %s" % (outcome[1], outcome[2]))
        elif want is not None and outcome[2] != want:
            a, b = outcome[2], want
            n = 0
            while n < min(len(a), len(b)) and a[n] == b[n]:
                n += 1
            fail = ("misbehaves", "differs from the fresh-process result at char %d: got ...%s | fresh ...%s" % (n, a[max(0, n - 30) : n + 50], b[max(0, n - 30) : n + 50]))
    return fail


def judge_last(hist, seed):
    """Run hist in a fresh fork; judge its LAST action (used by --replay)."""
    res = run_forked(hist, seed)
    outcome, model, key, _ = res[-1]
    return judge_step(hist[-1], outcome, model), key, model


def run_shard(shard):
    kind, seed, jobs = shard
    res = core.ShardResult()
    out = []
    for hist, acts in jobs:
        exp = expand_forked(hist, acts, seed)
        res.c["prefix_replays"] += 1
        for a, (prev_model, (outcome, model, key, _)) in zip(acts, exp):
            h2 = hist + [a]
            fail = judge_step(a, outcome, model)
            res.c["histories_replayed"] += 1
            res.c["actions_executed"] += len(h2)
            if a[0] == "conv":
                res.c["conversions_compared_with_fresh_process"] += 1
            if fail:
                res.fail(hist_key(h2), None, fail[0], fail[1], {"history": [list(x) for x in h2]})
            out.append((h2, key, model))
    res.bfs = out
    return res


def _pool_map(shards, seed):
    """like core.run_shards but keeps the per-history BFS payload"""
    import multiprocessing as mp

    ctx = mp.get_context("fork")
    results = []
    with ctx.Pool(min(core.NPROC, max(1, len(shards)))) as pool:
        for st, sh, r in pool.imap_unordered(core._call, [(run_shard, s) for s in shards], chunksize=1):
            if st == "err":
                raise core.HarnessError("worker failure: %s" % r)
            results.append(r)
    return results


def main(tier, seed, collect=None):
    global _TABLE
    t0 = time.time()
    core.ol()
    depth = 5 if tier == "quick" else 6
    nd_depth = 3 if tier == "quick" else 4
    total = core.ShardResult()
    total.MAX_EXTRA = 10**9
    table, problems, nref = reference_table()
    _TABLE = table
    total.c["fresh_process_references"] = nref
    for k, kl, d in problems:
        total.fail(k, None, kl, d, None)

    # ---- (a) BFS with state deduplication; the initial state has one live default object
    init = [("new",)]
    r0 = run_forked(init, seed, want_blob=True)
    key0 = r0[-1][2]
    seen = {key0: init}
    hidden = {key0[1]}
    frontier = [(init, r0[-1][1])]
    transitions = 0
    maxdepth = 0
    for d in range(1, depth + 1):
        jobs = [(hist, actions(model, full=True)) for hist, model in frontier]
        if not jobs:
            break
        shards = [("bfs", seed, ch) for ch in core.chunked(jobs, 2)]
        nxt = []
        for r in _pool_map(shards, seed):
            total.c.update(r.c)
            total.fails.extend(r.fails)
            for hist, key, model in r.bfs:
                transitions += 1
                hidden.add(key[1])
                if key not in seen:
                    seen[key] = hist
                    nxt.append((hist, model))
        maxdepth = d
        # deterministic frontier order, simplest first
        nxt.sort(key=lambda hm: hist_key(hm[0]))
        frontier = nxt
        if len({f[0] for f in total.fails}) > core.ABORT_AFTER:
            total.aborted = True
            break
    total.c["bfs_states"] = len(seen)
    total.c["bfs_transitions"] = transitions
    total.c["distinct_hidden_states"] = len(hidden)

    # ---- (b) all histories up to nd_depth over the core alphabet, no deduplication
    if not getattr(total, "aborted", False):
        level = [(init, r0[-1][1])]
        nd_hist = 0
        for d in range(1, nd_depth + 1):
            jobs = [(hist, actions(model, full=False)) for hist, model in level]
            shards = [("nd", seed, ch) for ch in core.chunked(jobs, 4)]
            level = []
            for r in _pool_map(shards, seed):
                total.c.update(r.c)
                total.fails.extend(r.fails)
                for hist, key, model in r.bfs:
                    nd_hist += 1
                    hidden.add(key[1])
                    level.append((hist, model))
            if len({f[0] for f in total.fails}) > core.ABORT_AFTER:
                total.aborted = True
                break
        total.c["nodedup_histories"] = nd_hist
        total.c["distinct_hidden_states"] = len(hidden)

    # determinism self-test: replay one history twice, identical observations
    probe = init + [("conv", 2, 0, "reseed"), ("set", 0, "unparser", "oneliner"), ("conv", 2, 0, "collide1")]
    a = run_forked(probe, seed)
    b = run_forked(probe, seed)
    if [x[0][:3] for x in a] != [x[0][:3] for x in b] or [x[2] for x in a] != [x[2] for x in b]:
        raise core.HarnessError("harness nondeterminism: the same history gave two different observations")
    total.sample({"history": hist_key(probe), "results": [x[0][:3] for x in a][1:2]})
    total.sample({"state_key_example": list(map(str, key0)), "hidden_state_items": r0[-1][3].split("\n")[:12]})

    c = total.c
    cov = {
        "states": c["bfs_states"],
        "transitions": c["bfs_transitions"] + c.get("nodedup_histories", 0),
        "traces_validated_against_impl": c["histories_replayed"],
        "evaluations": c["histories_replayed"],
        "distinct_nontrivial": c["conversions_compared_with_fresh_process"],
        "rule": "a case is one history of API actions replayed on fresh real objects in a forked pristine process; non-trivial = its last "
        "action is a conversion whose text is compared with the same call made in a fresh process",
        "exhaustive": True,
        "bfs_depth": maxdepth,
        "nodedup_depth": nd_depth,
        "programs": len(PROGRAMS),
        "max_live_option_objects": MAXOBJ,
        "distinct_hidden_implementation_states": c["distinct_hidden_states"],
        "fresh_process_references": nref,
    }
    assumptions = [
        "a forked child of the check process (oneliner imported, nothing converted, no options object created) is as fresh as a new process; the reference table itself comes from real new processes",
        "hidden state = module-/class-level mutable objects, descriptors, lru caches and closure cells reachable from oneliner.* modules; anything else is only covered by the no-deduplication exploration",
        "random 10-letter ids inside hidden state are abstracted to a placeholder (their count is kept)",
    ]
    return core.finish(PID, tier, seed, LEVEL, total, cov, assumptions, t0, collect)


def replay(payload):
    global _TABLE
    hist = [tuple(a) for a in (payload.get("extra") or {}).get("history", [])]
    if not hist:
        print("no history in replay file (reference-table failure?)", payload.get("detail"))
        table, problems, _ = reference_table()
        for p in problems:
            print("still failing:", p)
        return 1 if problems else 0
    _TABLE, _, _ = reference_table()
    fail, key, model = judge_last(hist, 0)
    print(hist_key(hist), "->", fail or "ok")
    return 1 if fail else 0

"""C11 - functions keep their signature, call binding, defaults and decorators (E1 x E2).

Space  : all 756 parameter lists with <= 2 parameters per kind (positional-only, positional-or-
         keyword, *args or bare *, keyword-only, **kwargs) and every legal default pattern
         x {def, def with annotations, user lambda, def whose parameters are all captured by inner scopes, def whose defaults read a name of the defining scope} x definition placement {module, function, class}
         x 8 option combinations.
Env(E2): the call battery - for each signature every call shape with 0..n+1 positionals x every
         subset (<= 2) of keywords drawn from all parameter names plus one unknown name - is the
         set of environment answers; all are executed on both sides.
Oracle : equal binding of every parameter, or both raise TypeError; inspect.signature equal modulo
         annotations; default expressions are probes: evaluated once, at definition time, in the
         defining scope, in order (log compared); decorators evaluated top-down and applied
         bottom-up; a call returns the value of the executed return, None when none runs.
"""
import inspect
import itertools
import time

from .. import core

PID = "C11"
LEVEL = "model_checking"


def sigs():
    for npo in range(3):
        for na in range(3):
            for nd in range(npo + na + 1):
                for star in ("", "*", "*va"):
                    for nk in range(3):
                        if star == "*" and nk == 0:
                            continue
                        if star == "" and nk > 0:
                            continue
                        for kd in itertools.product((0, 1), repeat=nk):
                            for kw in (0, 1):
                                yield npo, na, nd, star, nk, kd, kw


def params(s, ann=False):
    npo, na, nd, star, nk, kd, kw = s
    pos = ["p%d" % i for i in range(npo)] + ["a%d" % i for i in range(na)]
    parts, names = [], []
    A = (lambda n: ": 'T%s'" % n) if ann else (lambda n: "")
    for i, p in enumerate(pos):
        d = i >= len(pos) - nd
        parts.append(p + A(p) + ((" = " if ann else "=") + "dflt(%d)" % (100 + i) if d else ""))
        names.append(p)
        if i == npo - 1:
            parts.append("/")
    if star == "*":
        parts.append("*")
    elif star:
        parts.append("*va" + A("va"))
        names.append("va")
    for i in range(nk):
        parts.append("k%d" % i + A("k%d" % i) + ((" = " if ann else "=") + "dflt(%d)" % (200 + i) if kd[i] else ""))
        names.append("k%d" % i)
    if kw:
        parts.append("**kw" + A("kw"))
        names.append("kw")
    return ", ".join(parts), names


def render(s, variant, placement):
    ann = variant == "defann"
    plist, names = params(s, ann)
    tup = "(%s%s)" % (", ".join(names), "," if len(names) == 1 else "")
    if variant == "lambda":
        body = "f = lambda %s: %s" % (plist, tup if names else "()")
    elif variant == "defscope":
        # default expressions read a name of the DEFINING scope that also exists as a global and (in a function) is shared with a
        # sibling closure, so resolving it in the wrong namespace gives another value
        t = tup if names else "()"
        body = "def f(%s):\n    return %s" % (plist.replace("dflt(", "dflt(scoped, "), t)
    elif variant == "defrebind":
        # every parameter is captured by an inner function AND re-bound by a statement of the function's own body
        t = tup if names else "()"
        body = "def f(%s):\n    def inner():\n        return %s\n%s    if probe_branch():\n        return inner()\n    return %s" % (
            plist, t, "".join("    %s = %s\n" % (n, n) for n in names), t)
    elif variant == "defclassuse":
        # every parameter is read by the body of a class defined in the function, and by nothing else
        t = tup if names else "()"
        body = "def f(%s):\n    class Seen:\n        got = %s\n    return Seen.got" % (plist, t)
    elif variant == "defclosure":
        # every parameter is captured by an inner function and by an inner lambda
        t = tup if names else "()"
        body = "def f(%s):\n    def inner():\n        return %s\n    g = lambda: %s\n    if probe_branch():\n        return inner()\n    return g()" % (plist, t, t)
    else:
        body = "@deco(1)\n@deco(2)\ndef f(%s)%s:\n    if probe_branch():\n        return %s\n    mark()" % (plist, " -> 'R'" if ann else "", tup if names else "()")
    if placement == "module":
        return "scoped = 'module'\n" + body + "\n"
    if placement == "function":
        return ("scoped = 'global'\ndef F(scoped='param'):\n    local = 1\n    def bump():\n        nonlocal scoped\n        scoped = scoped + '+bumped'\n    bump()\n"
                + _ind(body) + "\n    return f\nf = F()\n")
    return "scoped = 'global'\nclass K:\n    member = 1\n    scoped = 'member'\n" + _ind(body) + "\nf = K.__dict__['f']\n"


def _ind(s):
    return "\n".join("    " + l for l in s.split("\n"))


def battery(s):
    npo, na, nd, star, nk, kd, kw = s
    allnames = ["p%d" % i for i in range(npo)] + ["a%d" % i for i in range(na)] + ["k%d" % i for i in range(nk)] + ["zz"]
    for npos in range(0, npo + na + 2):
        for r in range(0, 3):
            for kws in itertools.combinations(allnames, r):
                yield tuple(range(1, npos + 1)), {k: "K" + k for k in kws}


class Env:
    def __init__(self):
        self.log = []
        self.branch = True

    def ns(self):
        e = self

        def dflt(*a):
            # dflt(i) or dflt(value of the name `scoped` in the defining scope, i)
            e.log.append(("default",) + a)
            return a[-1]

        def deco(i):
            e.log.append(("deco-eval", i))

            def d(fn):
                e.log.append(("deco-apply", i, callable(fn)))
                return fn

            return d

        def probe_branch():
            return e.branch

        def mark():
            e.log.append(("mark",))

        return {"dflt": dflt, "deco": deco, "probe_branch": probe_branch, "mark": mark, "__name__": "__main__"}


def call(f, a, k):
    try:
        return ("ok", f(*a, **k))
    except TypeError:
        return ("TypeError",)
    except RecursionError:
        return ("RecursionError",)
    except Exception as e:
        return ("exc", type(e).__name__)


def sig_text(f):
    try:
        sg = inspect.signature(f)
    except (TypeError, ValueError) as e:
        return "no-signature:%s" % type(e).__name__
    ps = [p.replace(annotation=inspect.Parameter.empty) for p in sg.parameters.values()]
    return str(sg.replace(parameters=ps, return_annotation=inspect.Signature.empty))


def check_sig(res, s, variant, placement, cfgs):
    key = "c11:%s:%s:%r" % (variant, placement, s)
    src = render(s, variant, placement)
    e0 = Env()
    g = e0.ns()
    try:
        exec(compile(src, "<s>", "exec"), g)
    except Exception as ex:
        res.c["skipped:reference_raises"] += 1
        res.notes["reference raises %s" % type(ex).__name__] += 1
        return
    f = g["f"]
    res.c["signatures"] += 1
    deflog = list(e0.log)
    sg = sig_text(f)
    outs = []
    for ci in cfgs:
        try:
            text = core.convert(src, ci)
        except Exception as ex:
            res.fail(key, ci, "rejects", "%s: %s" % (type(ex).__name__, ex), {"source": src})
            continue
        why = core.is_single_line_expr(text)
        if why:
            res.fail(key, ci, "malformed", why, {"source": src, "output": text})
            continue
        e1 = Env()
        g1 = e1.ns()
        try:
            with core.time_limit(10):
                eval(compile(text, "<o>", "eval"), g1)
            f1 = g1["f"]
        except BaseException as ex:
            if isinstance(ex, (KeyboardInterrupt, core.HarnessError)):
                raise
            res.fail(key, ci, "misbehaves", "definition failed: %s: %s" % (type(ex).__name__, ex), {"source": src, "output": text})
            continue
        if e1.log != deflog:
            res.fail(key, ci, "misbehaves", "definition-time log differs (defaults/decorators): %r vs %r" % (deflog, e1.log), {"source": src, "output": text})
            continue
        s1 = sig_text(f1)
        if s1 != sg:
            res.fail(key, ci, "misbehaves", "inspect.signature differs: %s vs %s" % (sg, s1), {"source": src, "output": text})
            continue
        outs.append((ci, f1, e1, text))
    failed = set()
    for branch in ((True,) if variant == "lambda" else (True, False)):
        e0.branch = branch
        for a, k in battery(s):
            e0.log = []
            r = call(f, a, k)
            res.c["calls"] += 1
            for ci, f1, e1, text in outs:
                if ci in failed:
                    continue
                e1.branch = branch
                e1.log = []
                r1 = call(f1, a, k)
                res.c["replays"] += 1
                if r1 != r or e1.log != e0.log:
                    failed.add(ci)
                    res.fail(key, ci, "misbehaves", "call f(*%r, **%r) [return taken=%s]: expected %r got %r" % (a, k, branch, r, r1), {"source": src, "output": text, "args": list(a), "kwargs": k})
    if not failed and len(outs) == len(cfgs):
        res.sample({"key": key, "source": src}, 1)


def run_shard(shard):
    r, k, cfgs, variants, placements = shard
    res = core.ShardResult()
    for idx, s in enumerate(sigs()):
        if idx % k != r:
            continue
        for v in variants:
            for pl in placements:
                check_sig(res, s, v, pl, cfgs)
    return res


def main(tier, seed, collect=None):
    t0 = time.time()
    k = 96
    variants = ["def", "defann", "lambda", "defclosure", "defscope", "defclassuse", "defrebind"]
    placements = ["module", "function", "class"]
    cfgs = core.ALL_CFG
    total = core.run_shards(run_shard, [(r, k, cfgs, variants, placements) for r in range(k)], seed=seed, pid=PID)
    other_hosts = core.run_on_hosts(PID, ["py310", "py311", "py313"], "quick", seed, total) if tier == "thorough" else []

    c = total.c
    cov = {
        "states": c["signatures"] + c["calls"],
        "transitions": c["calls"],
        "traces_validated_against_impl": c["replays"],
        "evaluations": c["replays"] + c["calls"],
        "distinct_nontrivial": c["signatures"],
        "rule": "every (parameter list, variant, placement) is one case with a distinct key; all are non-trivial (each gets its whole call battery); "
        "states = definitions + call shapes, transitions = call shapes executed on the reference",
        "exhaustive": True,
        "parameter_lists": 756,
        "variants": variants,
        "placements": placements,
        "configurations": [core.cfg_name(i) for i in cfgs],
    }
    assumptions = [
        "CPython %s argument binding is the reference; only the TypeError type is compared, never the message" % core.HOST,
        "signatures are compared modulo annotations and function name (metadata the lowering drops by design)",
    ]
    return core.finish(PID, tier, seed, LEVEL, total, cov, assumptions, t0, collect)


def replay(payload):
    key = payload["key"]
    _, variant, placement, srepr = key.split(":", 3)
    s = eval(srepr)
    res = core.ShardResult()
    check_sig(res, s, variant, placement, [payload["cfg"]] if payload.get("cfg") is not None else core.ALL_CFG)
    for f in res.fails:
        print("still failing:", f[0], core.cfg_name(f[1]), f[3], f[4])
    return 1 if res.fails else 0

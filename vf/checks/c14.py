"""C14 - imports bind the same objects to the same names (E1 + E3 history enumeration).

Fixture  : fixtures/pkgtree/vpk/{__init__, other, sub/{__init__, mod, sib}}; every module appends its
           own name to a log when it is executed (sib imports mod itself).
Alphabet : 20 import statement forms (import a / a.b / a.b.c, aliased, several modules in one
           statement, from-import of attributes and of not-yet-imported submodules, with aliases,
           relative imports of level 1 and 2 with and without a module part).
Histories: every sequence of <= 2 (quick) / <= 3 (thorough) statements (import state is a state
           machine: sys.modules) x placement {module, function, class, function whose inner function and inner class
           body read the names, inner function with `nonlocal`, function with `global`, module level after while and for/break loops, nested function with `global` under a function importing the same names} x caller identity
           {top-level script, module inside vpk.sub} x 8 option combinations; vpk* is purged from
           sys.modules before every run.
Oracle   : equal import log (which modules, order, each once), equal sys.modules delta, every bound
           name refers to the same module / attribute value, plus the C01 observation.
"""
import builtins
import itertools
import os
import sys
import time

from .. import core, observe, progcheck

PID = "C14"
LEVEL = "model_checking"
FIX = os.path.join(core.VERIF, "fixtures", "pkgtree")

# (label, statement, bound names, needs package context)
FORMS = [
    ("import-top", "import vpk", ["vpk"], False),
    ("import-dotted", "import vpk.other", ["vpk"], False),
    ("import-dotted3", "import vpk.sub.mod", ["vpk"], False),
    ("import-dotted3-as", "import vpk.sub.mod as m", ["m"], False),
    ("import-top-as", "import vpk as v", ["v"], False),
    ("import-two", "import vpk.other, vpk.sub", ["vpk"], False),
    ("import-three-mixed", "import vpk.sub as s, vpk.other as o, vpk", ["s", "o", "vpk"], False),
    ("from-attr", "from vpk import attr", ["attr"], False),
    ("from-submodule", "from vpk import other", ["other"], False),
    ("from-two-as", "from vpk import other as oo, attr as aa", ["oo", "aa"], False),
    ("from-dotted-submodule", "from vpk.sub import mod", ["mod"], False),
    ("from-dotted3-as", "from vpk.sub.mod import x as y, z", ["y", "z"], False),
    ("from-attr-and-submodule", "from vpk.sub import subattr, sib", ["subattr", "sib"], False),
    ("import-sib", "import vpk.sub.sib as sb2", ["sb2"], False),
    ("from-sib", "from vpk.sub.sib import y as yy", ["yy"], False),
    ("rel1-bare", "from . import mod", ["mod"], True),
    ("rel1-module", "from .mod import x", ["x"], True),
    ("rel2-bare", "from .. import other", ["other"], True),
    ("rel2-module", "from ..other import val as v2", ["v2"], True),
    ("rel1-two", "from . import sib as sb, mod as md", ["sb", "md"], True),
]
PLACEMENTS = ("module", "function", "class", "closure", "nonlocal", "globaldecl", "after-loops", "global-under-import")
CALLERS = {"script": ("__main__", None), "package": ("vpk.sub.caller", "vpk.sub")}


def show(pairs):
    out = []
    for k, v in pairs:
        if type(v).__name__ == "module":
            out.append((k, "module", v.__name__, v is sys.modules.get(v.__name__)))
        else:
            out.append((k, "value", repr(v)))
    return out


def state():
    return (tuple(getattr(builtins, "_vpk_log", [])), tuple(sorted(k for k in sys.modules if k == "vpk" or k.startswith("vpk."))))


def purge():
    for k in [k for k in sys.modules if k == "vpk" or k.startswith("vpk.")]:
        del sys.modules[k]
    builtins._vpk_log = []
    import importlib

    importlib.invalidate_caches()


def render(seq, placement):
    names = []
    for f in seq:
        for n in f[2]:
            if n not in names:
                names.append(n)
    stmts = "\n".join(f[1] for f in seq)
    pairs = "[%s]" % ", ".join("(%r, %s)" % (n, n) for n in names)
    if placement == "module":
        return stmts + "\nprint(show(%s), state())\n" % pairs
    if placement == "function":
        return "def F():\n%s\n    print(show(%s), state())\n    return %s\nR = F()\n" % (_ind(stmts), pairs, names[0])
    if placement == "global-under-import":
        # the outer function binds the names by an import only (to another module object); a nested function declares
        # them global and runs the statements: its stores and reads must go to the module namespace, the outer function
        # keeps its own bindings
        return (
            "def F():\n%s\n    def G():\n        global %s\n%s\n        return show(%s)\n    r = G()\n    print(r, show(%s), state())\nF()\nprint(show(%s))\n"
            % (_ind("\n".join("import sys as %s" % n for n in names)), ", ".join(names), _ind(_ind(stmts)), pairs, pairs, pairs)
        )
    if placement == "after-loops":
        # the program also uses the features that make the output start with its helper bootstrap (itertools for while,
        # the iterator preset for for/break), next to the importlib helper the import itself needs
        return "n = 0\nwhile n < 1:\n    n += 1\nfor q in [1, 2]:\n    if q:\n        break\n" + stmts + "\nprint(show(%s), state(), n, q)\n" % pairs
    if placement == "closure":
        # bound by the import in F only; read as a free variable of an inner function and of an inner class body
        return (
            "def F():\n%s\n    def G():\n        return show(%s)\n    class C:\n        r = show(%s)\n"
            "    print(G(), C.r == G(), state())\n    return %s\nR = F()\n" % (_ind(stmts), pairs, pairs, names[0])
        )
    if placement == "nonlocal":
        init = "\n".join("%s = None" % n for n in names)
        return (
            "def F():\n%s\n    def G():\n        nonlocal %s\n%s\n    G()\n    print(show(%s), state())\n    return %s\nR = F()\n"
            % (_ind(init), ", ".join(names), _ind(_ind(stmts)), pairs, names[0])
        )
    if placement == "globaldecl":
        return "def F():\n    global %s\n%s\nF()\nprint(show(%s), state())\n" % (", ".join(names), _ind(stmts), pairs)
    pairs_k = "[%s]" % ", ".join("(%r, K.%s)" % (n, n) for n in names)
    return "class K:\n%s\nprint(show(%s), state())\n" % (_ind(stmts), pairs_k)


def _ind(s):
    return "\n".join("    " + l for l in s.split("\n"))


def run_one(res, key, src, caller, cfgs):
    name, pkg = CALLERS[caller]

    def env():
        e = {"show": show, "state": state}
        if pkg:
            e["__package__"] = pkg
        return e

    try:
        code = compile(src, "<src>", "exec")
    except SyntaxError:
        res.c["skipped:cpython_rejects_source"] += 1
        return None
    purge()
    ref, _ = observe.run(code, "exec", env(), name=name)
    ref_state = state()
    if ref.outcome[0] != "ok":
        res.c["skipped:reference_raises"] += 1
        res.notes["reference raises %s" % (ref.outcome[1] if len(ref.outcome) > 1 else ref.outcome[0])] += 1
        return None
    res.c["programs_in_scope"] += 1
    for ci in cfgs:
        res.c["executions"] += 1
        try:
            text = core.convert(src, ci)
        except Exception as e:
            res.fail(key, ci, "rejects", "%s: %s" % (type(e).__name__, e), {"source": src})
            continue
        why = core.is_single_line_expr(text)
        if why:
            res.fail(key, ci, "malformed", why, {"source": src, "output": text})
            continue
        purge()
        got, _ = observe.run(text, "eval", env(), name=name)
        got_state = state()
        d = observe.compare(ref, got)
        if d is None and got_state != ref_state:
            d = "import log / sys.modules differ: %r vs %r" % (ref_state, got_state)
        if d:
            res.fail(key, ci, "misbehaves", d, {"source": src, "output": text, "caller": caller, "expected": ref.short(), "actual": got.short()})
    purge()
    return ref_state


def sequences(maxlen, caller):
    forms = [f for f in FORMS if caller == "package" or not f[3]]
    for n in range(1, maxlen + 1):
        for seq in itertools.product(forms, repeat=n):
            yield seq


def run_shard(shard):
    maxlen, r, k, cfgs = shard
    res = core.ShardResult()
    if FIX not in sys.path:
        sys.path.insert(0, FIX)
    states = set()
    idx = 0
    for caller in CALLERS:
        for seq in sequences(maxlen, caller):
            for pl in PLACEMENTS:
                idx += 1
                if idx % k != r:
                    continue
                key = "c14:%s:%s:%s" % (caller, pl, ";".join(f[0] for f in seq))
                src = render(seq, pl)
                res.c["histories"] += 1
                st = run_one(res, key, src, caller, cfgs)
                if st is not None:
                    states.add(st)
                    if idx % 397 == 0:
                        res.sample({"key": key, "source": src, "import_log": list(st[0])})
    res.states = states
    res.c["distinct_import_states_in_shard"] += len(states)
    return res


def main(tier, seed, collect=None):
    t0 = time.time()
    maxlen = 2 if tier == "quick" else 3
    k = 64 if tier == "quick" else 512
    cfgs = core.ALL_CFG if maxlen == 2 else [2, 5, 4, 3]
    total = core.run_shards(run_shard, [(maxlen, r, k, cfgs) for r in range(k)], seed=seed, pid=PID)
    c = total.c
    cov = {
        "states": max(1, c["distinct_import_states_in_shard"]),
        "transitions": c["histories"],
        "traces_validated_against_impl": c["executions"],
        "evaluations": c["executions"],
        "distinct_nontrivial": c["programs_in_scope"],
        "rule": "a case is one sequence of import statements x placement x caller identity (distinct key), run from a purged sys.modules; "
        "non-trivial = CPython executes it without raising; states = (import log, set of imported vpk modules) reached (summed over shards)",
        "exhaustive": True,
        "forms": [f[0] for f in FORMS],
        "max_sequence_length": maxlen,
        "callers": list(CALLERS),
        "configurations": [core.cfg_name(i) for i in cfgs],
    }
    assumptions = [
        "the vendored package tree is the whole import universe explored; vpk* is purged from sys.modules and the finder caches invalidated before every run",
        "CPython %s import semantics are the reference" % core.HOST,
    ]
    return core.finish(PID, tier, seed, LEVEL, total, cov, assumptions, t0, collect)


def replay(payload):
    ex = payload.get("extra") or {}
    src = ex.get("source")
    if src is None:
        print("no source in replay file")
        return 2
    if FIX not in sys.path:
        sys.path.insert(0, FIX)
    res = core.ShardResult()
    run_one(res, payload["key"], src, payload["key"].split(":")[1], [payload["cfg"]] if payload.get("cfg") is not None else core.ALL_CFG)
    for f in res.fails:
        print("still failing:", f[0], core.cfg_name(f[1]), f[3], f[4])
    return 1 if res.fails else 0

"""C17 - long and deeply nested programs convert without exhausting recursion (E1, exhaustive grid).

Families : 24 program families parameterised by N (consecutive statements at module/function/class/
           loop level and after an early exit, elif chains, chained binary/boolean/comparison
           operators, call/attribute/subscript chains, nested if/for/while/def/class blocks, nested
           brackets and lambdas, long tuple targets, long augmented right-hand sides, many defs ...), plus a long operator
           chain in each of 20 expression-hosting statement slots.
           Families bounded by CPython's own nesting limits also get the sizes just below the limit
           (50, 90, 98 indentation levels; 15, 19, 20 nested loops).
Bound    : N on the geometric grid {10, 30, 100, 300, 1000} (quick) + {3000, 10000} (thorough), cut
           per family at the first N CPython itself refuses for the SOURCE; x 8 option combinations;
           every (family, N) runs in its own fresh subprocess with the default recursion limit (a
           crashed subprocess is re-run one configuration at a time).
Oracle   : the source compiles and runs  =>  conversion succeeds, the text compiles in eval mode,
           evaluates, and prints what the source prints. Slowness is never a violation; only refusal
           (exception, text that does not compile, crash) or different output is.
"""
import json
import os
import subprocess
import sys
import time

from .. import core

PID = "C17"
LEVEL = "exploration"


def _ind(s, n=1):
    return "\n".join("    " * n + l for l in s.split("\n"))


def nested(header, n, innermost):
    lines = []
    for i in range(n):
        lines.append("    " * i + header.replace("#", str(i)))
    lines.append("    " * n + innermost)
    return "\n".join(lines)


def _elif_mixed(n):
    """an if/elif chain whose tests alternate between a plain comparison and a chained comparison"""
    out = ["x = %d" % (n - 1), "if x < 0:", "    r = -2"]
    for i in range(n):
        out.append("elif x == %d:" % i if i % 2 else "elif %d <= x < %d + 1:" % (i, i))
        out.append("    r = %d" % i)
    out += ["else:", "    r = -1", "print(r)"]
    return "\n".join(out) + "\n"


FAMILIES = {
    "seq-module": lambda n: "x = 0\n" + "x = x + 1\n" * n + "print(x)\n",
    "seq-func": lambda n: "def f(x):\n" + "    x = x + 1\n" * n + "    return x\nprint(f(0))\n",
    "seq-class": lambda n: "class K:\n    x = 0\n" + "    x = x + 1\n" * n + "print(K.x)\n",
    "seq-loop": lambda n: "x = 0\nfor i in range(2):\n" + "    x += 1\n" * n + "print(x)\n",
    "seq-after-exit-func": lambda n: "def f(x):\n    if x < 0:\n        return -1\n" + "    x = x + 1\n" * n + "    return x\nprint(f(0), f(-5))\n",
    "seq-after-exit-loop": lambda n: "x = 0\nfor i in range(3):\n    if i == 1:\n        continue\n" + "    x += 1\n" * n + "print(x)\n",
    "seq-calls": lambda n: "r = []\n" + "r.append(1)\n" * n + "print(len(r))\n",
    "many-defs": lambda n: "".join("def f%d(a):\n    return a + %d\n" % (i, i) for i in range(n)) + "print(f0(1), f%d(1))\n" % (n - 1),
    "many-classes": lambda n: "".join("class C%d:\n    v = %d\n" % (i, i) for i in range(n)) + "print(C0.v, C%d.v)\n" % (n - 1),
    "guard-clauses-return": lambda n: "def f(x):\n" + "".join("    if x == %d:\n        return %d\n" % (i, i) for i in range(n)) + "    return -1\nprint(f(0), f(%d), f(-5))\n" % (n - 1),
    "guard-clauses-continue": lambda n: "r = 0\nfor x in range(3):\n" + "".join("    if x == %d:\n        continue\n" % (i + 1) for i in range(n)) + "    r += 1\nprint(r)\n",
    "guard-clauses-break": lambda n: "r = 0\nwhile r < 5:\n    r += 1\n" + "".join("    if r == %d:\n        break\n" % (i + 3) for i in range(n)) + "print(r)\n",
    "elif-chain-mixed": lambda n: _elif_mixed(n),
    "if-else-nested-in-else": lambda n: "x = %d\n" % (n - 1) + "".join("    " * i + "if x == %d:\n" % i + "    " * (i + 1) + "r = %d\n" % i + "    " * i + "else:\n" for i in range(n)) + "    " * n + "r = -1\nprint(r)\n",
    "elif-chain": lambda n: "x = %d\nif x == 0:\n    r = 0\n" % (n - 1) + "".join("elif x == %d:\n    r = %d\n" % (i, i) for i in range(1, n)) + "else:\n    r = -1\nprint(r)\n",
    "binop-chain": lambda n: "x = " + " + ".join(["1"] * n) + "\nprint(x)\n",
    "boolop-chain": lambda n: "x = " + " and ".join(["1"] * n) + "\nprint(x)\n",
    "compare-chain": lambda n: "x = " + " < ".join(str(i) for i in range(n + 1)) + "\nprint(x)\n",
    "call-chain": lambda n: "def f():\n    return f\nx = f" + "()" * n + "\nprint(x is f)\n",
    "attr-chain": lambda n: "class O:\n    pass\no = O()\no.a = o\nx = o" + ".a" * n + "\nprint(x is o)\n",
    "subscript-chain": lambda n: "d = {}\nd[0] = d\nx = d" + "[0]" * n + "\nprint(x is d)\n",
    "nested-if": lambda n: "x = 0\n" + nested("if x == 0:", n, "x = 1") + "\nprint(x)\n",
    "nested-for": lambda n: "x = 0\n" + nested("for i# in range(1):", n, "x += 1") + "\nprint(x)\n",
    "nested-while": lambda n: "x = 0\n" + nested("while x == 0:", n, "x = 1") + "\nprint(x)\n",
    "nested-def": lambda n: nested("def f#():", n, "return 7") + "".join("\n" + "    " * (n - 1 - i) + "return f%d()" % (n - 1 - i) for i in range(n - 1)) + "\nprint(f0())\n",
    "nested-class": lambda n: nested("class C#:", n, "v = 5") + "\nprint(C0" + "".join(".C%d" % i for i in range(1, n)) + ".v)\n",
    "nested-brackets": lambda n: "x = " + "[" * n + "1" + "]" * n + "\nprint(len(x))\n",
    "nested-lambda": lambda n: "x = " + "lambda: " * n + "3\nfor _ in range(%d):\n    x = x()\nprint(x)\n" % n,
    "long-tuple-target": lambda n: ", ".join("a%d" % i for i in range(n)) + ", = range(%d)\nprint(a0, a%d)\n" % (n, n - 1),
    "aug-long-rhs": lambda n: "x = 0\nx += " + " + ".join(["1"] * n) + "\nprint(x)\n",
    "nested-loop-break": lambda n: "x = 0\n" + nested("for i# in range(2):", n, "x += 1\n" + "    " * n + "break") + "\nprint(x)\n",
    "return-in-nested-loops": lambda n: "def f():\n" + _ind(nested("for i# in range(2):", n, "return %d" % n)) + "\nprint(f())\n",
    "long-fstring": lambda n: "a = 1\nx = f'" + "{a}-" * n + "'\nprint(len(x))\n",
    "long-list-display": lambda n: "x = [" + ", ".join(str(i) for i in range(n)) + "]\nprint(sum(x))\n",
    "dict-unpack-chain": lambda n: "d = {1: 2}\nx = {" + ", ".join(["**d"] * n) + "}\nprint(x)\n",
}


def _E(n):
    return " + ".join(["1"] * n)


# a long operator chain in every statement slot that hosts an expression (each slot is lowered by different code,
# and any of them may pass the expression through a recursive helper)
FAMILIES.update({
    "long-expr:aug-attr-rhs": lambda n: "class O:\n    a = 0\no = O()\no.a += " + _E(n) + "\nprint(o.a)\n",
    "long-expr:aug-subscript-rhs": lambda n: "d = [0]\nd[0] += " + _E(n) + "\nprint(d[0])\n",
    "long-expr:aug-subscript-index": lambda n: "d = {%d: 0}\nd[" % n + _E(n) + "] += 1\nprint(d)\n",
    "long-expr:attr-assign-rhs": lambda n: "class O:\n    pass\no = O()\no.a = " + _E(n) + "\nprint(o.a)\n",
    "long-expr:subscript-assign-index": lambda n: "d = {}\nd[" + _E(n) + "] = 1\nprint(d)\n",
    "long-expr:if-test": lambda n: "if " + _E(n) + ":\n    print(1)\nelse:\n    print(0)\n",
    "long-expr:while-test": lambda n: "x = 0\nwhile x < " + _E(n) + ":\n    x = %d\nprint(x)\n" % n,
    "long-expr:for-iter": lambda n: "for i in [" + _E(n) + "]:\n    print(i)\n",
    "long-expr:return": lambda n: "def f():\n    return " + _E(n) + "\nprint(f())\n",
    "long-expr:call-arg": lambda n: "print(" + _E(n) + ")\n",
    "long-expr:param-default": lambda n: "def f(a=" + _E(n) + "):\n    return a\nprint(f())\n",
    "long-expr:lambda-body": lambda n: "f = lambda: " + _E(n) + "\nprint(f())\n",
    "long-expr:comprehension-elt": lambda n: "print([" + _E(n) + " for _ in range(1)])\n",
    "long-expr:unpack-rhs": lambda n: "a, b = " + _E(n) + ", 2\nprint(a, b)\n",
    "long-expr:walrus": lambda n: "print((y := " + _E(n) + "), y)\n",
    "long-expr:class-attr": lambda n: "class K:\n    v = " + _E(n) + "\nprint(K.v)\n",
    "long-expr:decorator-arg": lambda n: "def deco(k):\n    return lambda f: (lambda: f() + k)\n@deco(" + _E(n) + ")\ndef g():\n    return 0\nprint(g())\n",
    "long-expr:class-base-call": lambda n: "def B(k):\n    return type('B', (), {'k': k})\nclass K(B(" + _E(n) + ")):\n    pass\nprint(K.k)\n",
    "long-expr:fstring-field": lambda n: "print(f'{" + _E(n) + "}')\n",
    "long-expr:import-then-attr": lambda n: "import os\nprint(len(os.sep) + " + _E(n) + ")\n",
})
GRID_Q = [10, 30, 100, 300, 1000]
GRID_T = [10, 30, 100, 300, 1000, 3000, 10000]
# families whose source CPython refuses early (100 indentation levels, 20 statically nested blocks): sizes just below the limit
NEAR_LIMIT = {
    "nested-if": [50, 90, 98], "nested-def": [50, 90, 98], "nested-class": [50, 90, 98], "if-else-nested-in-else": [50, 90, 98],
    "nested-for": [15, 19, 20], "nested-while": [15, 19, 20], "nested-loop-break": [15, 19], "return-in-nested-loops": [15, 19], "nested-brackets": [150, 190],
}

_CHILD = r"""
import sys, json, io, contextlib, signal, ast
job = json.load(sys.stdin)
sys.path.insert(0, job["repo"])
sys.dont_write_bytecode = True
class TO(BaseException): pass
def _alarm(*a): raise TO()
signal.signal(signal.SIGALRM, _alarm)
def limited(sec, fn):
    signal.setitimer(signal.ITIMER_REAL, sec)
    try: return fn()
    finally: signal.setitimer(signal.ITIMER_REAL, 0)
def run(code, mode):
    b = io.StringIO()
    with contextlib.redirect_stdout(b):
        (exec if mode == "exec" else eval)(code, {"__name__": "__main__"})
    return b.getvalue()
out = {"source": None, "cfgs": {}}
src = job["src"]
try:
    code = limited(60, lambda: compile(src, "<s>", "exec"))
    ref = limited(60, lambda: run(code, "exec"))
    out["source"] = "ok"
except TO:
    out["source"] = "timeout"
except BaseException as e:
    out["source"] = "refused:%s:%s" % (type(e).__name__, str(e)[:80])
print(json.dumps({"source": out["source"]}), flush=True)
if out["source"] == "ok":
    import oneliner, oneliner.config
    for ci, (u, w, s) in job["cfgs"]:
        c = oneliner.config.Configs(); c.unparser, c.expr_wrapper, c.if_style = u, w, s
        st = None
        try:
            t = limited(job["limit"], lambda: oneliner.convert_code_string(src, configs=c))
        except TO:
            st = ("slow", "conversion")
        except BaseException as e:
            st = ("rejects", "conversion raised %s: %s" % (type(e).__name__, str(e)[:100]))
        if st is None:
            if "\n" in t or "\r" in t:
                st = ("malformed", "line break in output")
            else:
                try:
                    co = limited(job["limit"], lambda: compile(t, "<o>", "eval"))
                except TO:
                    st = ("slow", "compile")
                except BaseException as e:
                    st = ("malformed", "output does not compile: %s: %s" % (type(e).__name__, str(e)[:100]))
        if st is None:
            try:
                got = limited(job["limit"], lambda: run(co, "eval"))
                st = ("ok", "") if got == ref else ("misbehaves", "stdout differs: %r vs %r" % (ref[-60:], got[-60:]))
            except TO:
                st = ("slow", "eval")
            except BaseException as e:
                st = ("misbehaves", "evaluation raised %s: %s" % (type(e).__name__, str(e)[:100]))
        print(json.dumps({"cfg": ci, "st": st}), flush=True)
"""


def run_child(src, cfgs, limit=120):
    job = {"repo": core.REPO, "src": src, "cfgs": [(ci, core.CONFIGS[ci]) for ci in cfgs], "limit": limit}
    env = dict(os.environ, PYTHONDONTWRITEBYTECODE="1")
    env.pop("PYTHONPATH", None)
    try:
        p = subprocess.run([sys.executable, "-c", _CHILD], input=json.dumps(job), capture_output=True, text=True, timeout=limit * (3 * len(cfgs) + 2), env=env)
        rc, out = p.returncode, p.stdout
    except subprocess.TimeoutExpired as e:
        rc, out = "timeout", (e.stdout or b"").decode() if isinstance(e.stdout, bytes) else (e.stdout or "")
    res = {"source": None, "cfgs": {}, "rc": rc}
    for line in out.splitlines():
        try:
            d = json.loads(line)
        except ValueError:
            continue
        if "source" in d:
            res["source"] = d["source"]
        else:
            res["cfgs"][d["cfg"]] = tuple(d["st"])
    return res


def run_shard(shard):
    fam, grid, cfgs = shard
    res = core.ShardResult()
    gen = FAMILIES[fam]
    for n in grid:
        src = gen(n)
        key = "c17:%s:%d" % (fam, n)
        r = run_child(src, cfgs)
        res.c["subprocesses"] += 1
        if r["source"] is None:
            # the child died while running the SOURCE: CPython itself cannot take this size
            res.c["grid_cut:cpython_crashes_on_source"] += 1
            res.notes["%s cut at N=%d: interpreter died on the source (rc=%r)" % (fam, n, r["rc"])] += 1
            break
        if r["source"] != "ok":
            res.c["grid_cut:cpython_refuses_source"] += 1
            res.notes["%s cut at N=%d: %s" % (fam, n, r["source"][:60])] += 1
            break
        res.c["sizes_in_scope"] += 1
        missing = [ci for ci in cfgs if ci not in r["cfgs"]]
        if missing:
            # the child died during one configuration: isolate each remaining configuration
            for ci in missing:
                r1 = run_child(src, [ci])
                res.c["subprocesses"] += 1
                r["cfgs"][ci] = r1["cfgs"].get(ci, ("rejects", "interpreter crashed (rc=%r) during conversion/compile/eval" % (r1["rc"],)))
        for ci in cfgs:
            st = r["cfgs"][ci]
            res.c["executions"] += 1
            if st[0] == "ok":
                res.c["ok"] += 1
            elif st[0] == "slow":
                res.c["slow_(not_a_violation)"] += 1
            else:
                res.fail(key, ci, st[0], st[1], {"family": fam, "n": n})
        if n == grid[0]:
            res.sample({"key": key, "source": src[:300]}, 1)
    return res


def main(tier, seed, collect=None):
    t0 = time.time()
    grid = GRID_Q if tier == "quick" else GRID_T
    sh = [(fam, sorted(set(grid + NEAR_LIMIT.get(fam, []))), core.ALL_CFG) for fam in FAMILIES]
    total = core.run_shards(run_shard, sh, seed=seed, pid=PID)
    c = total.c
    cov = {
        "evaluations": c["executions"],
        "distinct_nontrivial": c["sizes_in_scope"],
        "rule": "every (family, N) on the grid is one case; non-trivial = CPython compiles and runs the source of that size, so all 8 conversions are "
        "attempted in a fresh subprocess; the grid of a family is cut at the first N the interpreter refuses for the source",
        "exhaustive": True,
        "families": list(FAMILIES),
        "grid": grid,
        "subprocesses": c["subprocesses"],
        "states": c["sizes_in_scope"],
        "transitions": c["executions"],
        "traces_validated_against_impl": c["executions"],
    }
    assumptions = [
        "each case starts from the same frame depth in its own subprocess with the default recursion limit of CPython %s" % core.HOST,
        "a conversion/compile/eval that exceeds 120 s is counted as slow, never as a violation",
    ]
    return core.finish(PID, tier, seed, LEVEL, total, cov, assumptions, t0, collect)


def replay(payload):
    _, fam, n = payload["key"].split(":")
    r = run_child(FAMILIES[fam](int(n)), [payload["cfg"]] if payload.get("cfg") is not None else core.ALL_CFG)
    bad = {k: v for k, v in r["cfgs"].items() if v[0] not in ("ok", "slow")}
    print(payload["key"], r["source"], bad or "ok")
    return 1 if bad else 0

"""C06 - every name resolves to the same variable after lowering of scopes (E1, exhaustive).

Space  : scope trees (vf/spaces/scopes.py): kinds {module, def, class, lambda, list comprehension,
         generator expression}, <= 2 children per scope, every assignment of one role per scope from
         the role catalogue. quick: all trees with <= 3 scopes (3-scope trees under 4 of the 8 configurations: one unparser per
         (wrapper, if-style) pair, default included); thorough: <= 4 scopes x 8 configurations.
         Plus every CHAIN (one child per scope) of 4 (quick) / 4 and 5 (thorough) scopes over a reduced role
         catalogue (global/nonlocal/param/assign/read forms), which reaches three nested functions; and every FORK
         (module > function with a sibling def/class next to a chain of <= 2 scopes, both orders) over the same catalogue.
         In chains and forks every function additionally owns an unrelated variable rebound by an inner function
         ("ballast", keys c06:b:...), so that each function on the nesting path needs its own captured-variable storage.
Oracle : CPython must compile and run the program without exception (else skipped, counted); then
         equal log (values observed before/after inner scopes run) and equal final globals.
"""
import time

from .. import core, progcheck
from ..spaces import scopes

PID = "C06"
LEVEL = "exploration"


def run_shard(shard):
    if shard[0] == "fork":
        _, full, r, k, cfgs = shard
        res = core.ShardResult()
        for idx, t in enumerate(scopes.forks(full)):
            if idx % k != r:
                continue
            res.c["candidates"] += 1
            progcheck.check_program(res, "c06:b:" + scopes.key(t), scopes.render(t, ballast=True), cfgs, env=scopes.env, envname="scopes")
        return res
    if shard[0] == "chain":
        _, n, r, k, cfgs = shard
        res = core.ShardResult()
        for idx, t in enumerate(scopes.deep_chains(n)):
            if idx % k != r:
                continue
            res.c["candidates"] += 1
            progcheck.check_program(res, "c06:b:" + scopes.key(t), scopes.render(t, ballast=True), cfgs, env=scopes.env, envname="scopes")
        return res
    n, si, r, k, cfgs = shard
    res = core.ShardResult()
    shapes = list(scopes.trees(n))
    shape = shapes[si]
    seen = set()
    for idx, t in enumerate(scopes.assign_roles(shape)):
        if idx % k != r:
            continue
        res.c["candidates"] += 1
        src = scopes.render(t)
        key = "c06:" + scopes.key(t)
        nf = progcheck.check_program(res, key, src, cfgs, env=scopes.env, envname="scopes")
        if nf == 0 and idx % 499 == 0:
            res.sample({"key": key, "source": src})
    return res


def shards(tier):
    out = []
    mx = 3 if tier == "quick" else 4
    for n in range(1, mx + 1):
        nshapes = len(list(scopes.trees(n)))
        k = 1 if n <= 3 else 8
        for si in range(nshapes):
            for r in range(k):
                out.append((n, si, r, k, core.ALL_CFG if (tier == "thorough" or n < 3) else [4, 1, 2, 7]))
    # chains of 4 (quick) / 4 and 5 (thorough) scopes over the reduced role catalogue: deep nestings the full product cannot reach
    for n in ((4,) if tier == "quick" else (4, 5)):
        k = 64 if n == 4 else 512
        for r in range(k):
            out.append(("chain", n, r, k, [4, 1, 2, 7] if tier == "quick" else core.ALL_CFG))
    # forks: a function with a sibling scope that changes how its variable is stored, next to a chain using the name
    k = 64 if tier == "quick" else 256
    for r in range(k):
        out.append(("fork", tier == "thorough", r, k, [4, 1, 2, 7] if tier == "quick" else core.ALL_CFG))
    return out


def main(tier, seed, collect=None):
    t0 = time.time()
    sh = shards(tier)
    total = core.run_shards(run_shard, sh, seed=seed, pid=PID)
    other_hosts = core.run_on_hosts(PID, ["py310", "py311", "py313"], "quick", seed, total) if tier == "thorough" else []

    c = total.c
    cov = {
        "converter_hosts": [core.HOST] + other_hosts,
        "evaluations": c["executions"],
        "distinct_nontrivial": c["programs_in_scope"],
        "rule": "every (scope tree shape, role assignment) is one candidate program (distinct key); non-trivial = CPython compiles it and "
        "runs it without exception, so its 8 conversions are executed and compared",
        "exhaustive": True,
        "max_scopes": 3 if tier == "quick" else 4,
        "candidates": c["candidates"],
        "role_catalogue": scopes.ROLES,
        "states": c["candidates"],
        "transitions": c["executions"],
        "traces_validated_against_impl": c["executions"],
    }
    assumptions = [
        "CPython %s is the reference for name resolution" % core.HOST,
        "one tracked name x; the values written are scope paths, so a wrong binding shows as a wrong path in the log",
    ]
    return core.finish(PID, tier, seed, LEVEL, total, cov, assumptions, t0, collect)


def replay(payload):
    src = (payload.get("extra") or {}).get("source")
    if src is None:
        print("no source in replay file")
        return 2
    res = core.ShardResult()
    progcheck.check_program(res, payload["key"], src, [payload["cfg"]] if payload.get("cfg") is not None else None, env=scopes.env, envname="scopes")
    for f in res.fails:
        print("still failing:", f[0], core.cfg_name(f[1]), f[3], f[4])
    return 1 if res.fails else 0

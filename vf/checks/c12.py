"""C12 - classes keep their members, bases, metaclass, method kinds and super() (E1, exhaustive).

Space  : skeleton product {no base, one base, two bases (diamond), starred bases} x {default,
         explicit metaclass accepting **kw} x {no class keywords, keyword consumed by
         __init_subclass__; plus 9 further header shapes: keyword order around metaclass=, several
         keywords, ** expansion - with a reduced member set} x {0,1,2 decorators} x member sets of 1 kind (quick) / every pair of
         kinds (thorough) from 19 member kinds x placement {module, function, class, function with the header's
         helpers local to it, class with the helpers as its members} x 8 option combinations.
Oracle : filtered vars(cls) (metadata dunders excluded), MRO names, type(cls), result of calling
         every member on an instance and on a subclass, property set/get, name bound in the same
         scope; everything printed by an observer injected by the harness, plus final globals.
"""
import itertools
import time

from .. import core, progcheck

PID = "C12"
LEVEL = "exploration"

PRE = '''
class Meta(type):
    def __new__(m, n, b, d, **kw):
        c = super().__new__(m, n, b, d, **kw)
        c.meta_kw = sorted(kw.items())
        return c
    def __init__(c, n, b, d, **kw):
        super().__init__(n, b, d)
class Base0:
    def who(self):
        return 'Base0'
    def __init_subclass__(cls, tag=None, level=None, **kw):
        super().__init_subclass__(**kw)
        cls.tag = tag
        cls.level = level
class L(Base0):
    def who(self):
        return 'L>' + super().who()
class Rr(Base0):
    def who(self):
        return 'R>' + super().who()
def deco1(c):
    c.d1 = getattr(c, 'd2', 0) + 1
    return c
def deco2(c):
    c.d2 = 10
    return c
GX = 'global-x'
GL = ['g']
GN = 10
KWD = {'tag': 'Td', 'level': 4}
MKW = {'metaclass': Meta, 'level': 5}
'''
# further header shapes (keyword order relative to metaclass=, several keywords, ** expansion), explored with a
# reduced member set: every class keyword must reach the metaclass and __init_subclass__ with its own value
HEADERS_EXTRA = {
    "tag,meta": "tag='T', metaclass=Meta",
    "tag,level,meta": "tag='T', level=3, metaclass=Meta",
    "tag,meta,level": "tag='T', metaclass=Meta, level=3",
    "meta,tag,level": "metaclass=Meta, tag='T', level=3",
    "tag,level": "tag='T', level=3",
    "level,tag": "level=3, tag='T'",
    "**kwd": "**KWD",
    "meta,**kwd": "metaclass=Meta, **KWD",
    "tag,**mkw": "tag='T', **MKW",
}
BASES = {"none": "", "one": "Base0", "two": "L, Rr", "star": "*[L]"}
METAS = {"none": "", "meta": "metaclass=Meta"}
KWS = {"none": "", "tag": "tag='T'"}
DECOS = {"0": "", "1": "@deco1\n", "2": "@deco1\n@deco2\n"}
MEMBERS = {
    "attr": "    x = 1\n",
    "attr2": "    x2 = 1\n    y2 = x2 + 1\n",
    "method": "    def m(self):\n        return ('m', type(self).__name__)\n",
    "static": "    @staticmethod\n    def s(a=2):\n        return ('s', a)\n",
    "clsm": "    @classmethod\n    def c(cls):\n        return ('c', cls.__name__)\n",
    "prop": "    @property\n    def p(self):\n        return getattr(self, '_p', 'p0')\n    @p.setter\n    def p(self, v):\n        self._p = v\n",
    "nested": "    class In:\n        z = 5\n        def zm(self):\n            return self.z\n",
    "if": "    if GX:\n        f1 = 'then'\n    else:\n        f1 = 'else'\n",
    "for": "    acc = []\n    for i in range(3):\n        acc.append(i)\n",
    "while": "    n = 0\n    while n < 3:\n        n += 1\n",
    "lambda": "    lam = lambda self, q=2: ('lam', q)\n",
    "augglobal": "    GL += ['m']\n    GN += 1\n    ga = (GL, GN)\n",
    "lambdadefault": "    LIM = 3\n    lam = lambda self, q=LIM, *, r=(LIM, GX): ('lam', q, r)\n    LIM = 9\n    fs = []\n    for _n in range(2):\n        fs.append(lambda x=0, _n=_n, lim=LIM: (x, _n, lim))\n    fsres = [f() for f in fs]\n    fs = None\n",
    "super0": "    def who(self):\n        return 'K>' + super().who()\n",
    "super2": "    def who(self):\n        return 'K2>' + super(K, self).who()\n",
    # zero-argument super() in every statement position of a method that is lowered to its own lambda/comprehension
    "super0-privatemethod": "    def __who2(self, __arg='P'):\n        return __arg + '>' + super().who()\n    def who(self):\n        return self.__who2()\n",
    "super0-whiletest": "    def who(self):\n        n = 0\n        while super().who() and n < 1:\n            n += 1\n        return 'Kw%d>' % n + super().who()\n",
    "super0-whilewalrus": "    def who(self):\n        n = 0\n        while (w := super().who()) and n < 2:\n            n += 1\n            if n == 2:\n                break\n        return 'Kww%d>' % n + w\n",
    "super0-foriter": "    def who(self):\n        r = 'Kf>'\n        for ch in super().who():\n            if ch == 's':\n                break\n            r += ch\n        else:\n            r += '!'\n        return r\n",
    "super0-loopbody": "    def who(self):\n        r = 'Kb>'\n        for i in range(2):\n            n = 0\n            while n < 1:\n                n += 1\n                if i:\n                    r += super().who()\n        return r\n",
    "super0-iftest": "    def who(self):\n        if super().who():\n            return 'Ki>' + super().who()\n        return 'no'\n",
    "super0-ifexp-walrus": "    def who(self):\n        return 'Ke>' + (b if (b := super().who()) else 'none')\n",
    "super0-default-arg-call": "    def who(self, *a):\n        return 'Kd>' + '/'.join([super().who()] + [str(x) for x in a])\n",
    "initsub": "    def __init_subclass__(cls, **kw):\n        super().__init_subclass__(**kw)\n        cls.sub_seen = True\n",
    "comp": "    xs = [1, 2]\n    ys = [a * 2 for a in xs]\n    zs = {a: GX for a in xs}\n",
    "gread": "    gx = GX\n    GX = 'shadow'\n    gy = GX\n",
    "classcell": "    def cc(self):\n        return __class__.__name__\n",
    "dunder": "    def __len__(self):\n        return 3\n    def __eq__(self, o):\n        return True\n    __hash__ = None\n",
    "mangle": "    __priv = 7\n    def getpriv(self):\n        return self.__priv\n",
    "memberdefault": "    LIMIT = 3\n    def md(self, a=LIMIT, *, size=LIMIT + 1):\n        return a, size\n    LIMIT = 9\n",
    "decohook": "    def traced(fn):\n        def w(*a, **k):\n            return fn(*a, **k)\n        return w\n    @traced\n    def __init_subclass__(cls, **kw):\n        super().__init_subclass__(**kw)\n        cls.traced_seen = True\n    @staticmethod\n    def __new__(cls, *a):\n        return object.__new__(cls)\n    del_me = traced\n",
    "mangle_under": "    class _In:\n        __v = 3\n        def __h(self):\n            return self.__v\n        def g(self):\n            return self.__h(), sorted(k for k in vars(type(self)) if 'In' in k)\n    inres = _In().g()\n",
    "enclparamonly": "    cap2 = PARAM\n    cap3 = (PARAM, ENCL)\n",
    "closure": "    def cl(self):\n        return ENCL\n",
    "enclparam": "    cap = PARAM\n    def cl2(self):\n        return PARAM, self.cap\n",
}

OBS_SRC = '''
def obs(c):
    skip = {'__module__','__qualname__','__doc__','__dict__','__weakref__','__firstlineno__','__static_attributes__','__annotations__'}
    def kind(v):
        if isinstance(v, (int, str, list, tuple, bool, dict)) or v is None: return repr(v)
        if isinstance(v, type): return ('class', v.__name__, sorted(k for k in vars(v) if k not in skip))
        return type(v).__name__
    if not isinstance(c, type):
        return ('not a class', repr(c)[:40])
    out = {'vars': sorted((k, kind(v)) for k, v in vars(c).items() if k not in skip), 'mro': [b.__name__ for b in c.__mro__], 'meta': type(c).__name__}
    i = c()
    for name in ('m','s','c','p','lam','who','cc','getpriv','cl','cl2','md'):
        if hasattr(c, name):
            a = getattr(i, name)
            try: out['call:'+name] = a() if callable(a) else a
            except Exception as e: out['call:'+name] = ('raises', type(e).__name__)
            a = getattr(c, name)
            if name in ('s', 'c'): out['clscall:'+name] = a()
    if hasattr(c, 'p'):
        i.p = 9; out['p-after'] = i.p
    if hasattr(c, 'In'): out['nested'] = (c.In().zm(), c.In.__name__)
    if hasattr(c, '__len__'): out['len'] = (len(i), i == 5)
    class Sub(c): pass
    out['sub'] = (getattr(Sub, 'sub_seen', None), getattr(Sub, 'traced_seen', None), getattr(Sub, 'tag', None), getattr(Sub, 'level', None), Sub().who() if hasattr(Sub, 'who') else None,
                  Sub.c() if hasattr(Sub, 'c') else None, Sub().cc() if hasattr(Sub, 'cc') else None)
    return sorted(out.items())
'''
_OBS = {}
exec(OBS_SRC, _OBS)


def env():
    return {"obs": _OBS["obs"]}


def _ind(s):
    return "".join("    " + l + "\n" for l in s.rstrip("\n").split("\n"))


def progs(maxkinds):
    for x in _progs(maxkinds):
        yield x
    for (bn, b), (hn, h), (dn, d), m in itertools.product([(k, BASES[k]) for k in ("one", "two", "star")], HEADERS_EXTRA.items(), [(k, DECOS[k]) for k in ("0", "1")], ("attr", "initsub", "super0")):
        cd = "%sclass K(%s, %s):\n%s" % (d, b, h, MEMBERS[m])
        for place in ("module", "function", "class", "function-local", "class-local"):
            yield "c12:B[%s] H[%s] D[%s] M[%s] P[%s]" % (bn, hn, dn, m, place), _placed(cd, place)


def _placed(cd, place):
    if place == "module":
        return PRE + cd + "print(obs(K))\n"
    if place == "function":
        return PRE + "def mk(PARAM=None):\n    ENCL = 'enclosing'\n    if PARAM is None:\n        PARAM = 'rebound'\n" + _ind(cd) + "    print(obs(K))\n    return K\nRES = mk()\n"
    if place == "function-local":
        return ("def mk(PARAM=None):\n    ENCL = 'enclosing'\n    if PARAM is None:\n        PARAM = 'rebound'\n" + _ind(PRE.strip("\n"))
                + "    def _use():\n        return Meta, Base0, L, Rr, deco1, deco2, GX, KWD, MKW\n" + _ind(cd) + "    print(obs(K), len(_use()))\n    return K\nRES = mk()\n")
    if place == "class-local":
        return "GX = 'global-x'\nclass Outer:\n" + _ind(PRE.strip("\n").replace("GX = 'global-x'", "pass")) + _ind(cd) + "    seen = K\nprint(obs(Outer.K), Outer.seen is Outer.K)\n"
    return PRE + "class Outer:\n" + _ind(cd) + "    seen = K\nprint(obs(Outer.K), Outer.seen is Outer.K)\n"


def _progs(maxkinds):
    mems = list(MEMBERS)
    sets = [(m,) for m in mems]
    if maxkinds >= 2:
        sets += list(itertools.combinations(mems, 2))
    for (bn, b), (mn, m), (kn, k), (dn, d) in itertools.product(BASES.items(), METAS.items(), KWS.items(), DECOS.items()):
        if kn == "tag" and bn == "none":
            continue
        hdr = ", ".join(x for x in (b, m, k) if x)
        for ms in sets:
            nsuper = sum(1 for x in ms if x.startswith("super"))
            if nsuper and bn == "none":
                continue
            if nsuper > 1:
                continue  # each of them defines who()
            body = "".join(MEMBERS[x] for x in ms)
            for place in ("module", "function", "class", "function-local", "class-local"):
                if ("closure" in ms or "enclparam" in ms or "enclparamonly" in ms) and not place.startswith("function"):
                    continue
                if "super2" in ms and place.startswith("class"):
                    continue
                cd = ("%sclass K(%s):\n%s" % (d, hdr, body)) if hdr else ("%sclass K:\n%s" % (d, body))
                if place == "module":
                    src = PRE + cd + "print(obs(K))\n"
                elif place == "function":
                    src = PRE + "def mk(PARAM=None):\n    ENCL = 'enclosing'\n    if PARAM is None:\n        PARAM = 'rebound'\n" + _ind(cd) + "    print(obs(K))\n    return K\nRES = mk()\n"
                elif place == "function-local":
                    # the helpers used by the class header live in the enclosing function and are shared with an inner function
                    src = ("def mk(PARAM=None):\n    ENCL = 'enclosing'\n    if PARAM is None:\n        PARAM = 'rebound'\n" + _ind(PRE.strip("\n"))
                           + "    def _use():\n        return Meta, Base0, L, Rr, deco1, deco2, GX\n" + _ind(cd) + "    print(obs(K), len(_use()))\n    return K\nRES = mk()\n")
                elif place == "class-local":
                    # the helpers are members of the enclosing class (GX stays global: class members are invisible to methods)
                    src = "GX = 'global-x'\nclass Outer:\n" + _ind(PRE.strip("\n").replace("GX = 'global-x'", "pass")) + _ind(cd) + "    seen = K\nprint(obs(Outer.K), Outer.seen is Outer.K)\n"
                else:
                    src = PRE + "class Outer:\n" + _ind(cd) + "    seen = K\nprint(obs(Outer.K), Outer.seen is Outer.K)\n"
                yield "c12:B[%s] T[%s] W[%s] D[%s] M[%s] P[%s]" % (bn, mn, kn, dn, "+".join(ms), place), src


def run_shard(shard):
    maxkinds, r, k, cfgs = shard
    res = core.ShardResult()
    for idx, (key, src) in enumerate(progs(maxkinds)):
        if idx % k != r:
            continue
        res.c["programs_generated"] += 1
        n = progcheck.check_program(res, key, src, cfgs, env=env, envname="c12")
        if n == 0 and idx % 211 == 0:
            res.sample({"key": key, "source": src[len(PRE):]})
    return res


def main(tier, seed, collect=None):
    t0 = time.time()
    mk = 1 if tier == "quick" else 2
    k = 64 if tier == "quick" else 512
    total = core.run_shards(run_shard, [(mk, r, k, core.ALL_CFG) for r in range(k)], seed=seed, pid=PID)
    other_hosts = core.run_on_hosts(PID, ["py310", "py311", "py313"], "quick", seed, total) if tier == "thorough" else []

    c = total.c
    cov = {
        "converter_hosts": [core.HOST] + other_hosts,
        "evaluations": c["executions"],
        "distinct_nontrivial": c["programs_in_scope"],
        "rule": "every member of the skeleton product is one program (distinct key); non-trivial = CPython runs it without raising, "
        "so its 8 conversions are executed and the observer output compared",
        "exhaustive": True,
        "member_kinds": list(MEMBERS),
        "member_sets": "single kinds" if mk == 1 else "single kinds and all pairs",
        "programs_generated": c["programs_generated"],
        "states": c["programs_generated"],
        "transitions": c["executions"],
        "traces_validated_against_impl": c["executions"],
    }
    assumptions = [
        "CPython %s is the reference" % core.HOST,
        "class-creation hooks that observe the namespace (metaclass __new__ reading members, __set_name__, __slots__) are outside C01's fragment and are not generated",
    ]
    return core.finish(PID, tier, seed, LEVEL, total, cov, assumptions, t0, collect)


def replay(payload):
    src = (payload.get("extra") or {}).get("source")
    if src is None:
        for key, s in progs(2):
            if key == payload["key"]:
                src = s
                break
    res = core.ShardResult()
    progcheck.check_program(res, payload["key"], src, [payload["cfg"]] if payload.get("cfg") is not None else None, env=env, envname="c12")
    for f in res.fails:
        print("still failing:", f[0], core.cfg_name(f[1]), f[3], f[4])
    return 1 if res.fails else 0

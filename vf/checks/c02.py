"""C02 - accepted input always yields one well-formed single-line expression (E1, exhaustive).

Families (complete enumerations; conversion only, nothing is executed):
  product  (statement host with one expression hole) x (hazard expression): 45 hosts (every statement
           kind and header/target position) x 60 expression shapes chosen for their text hazards
           (multi-line and quote-heavy strings, nested f-strings, walrus, lambdas with defaults,
           starred/slice/tuple subscripts, comparison/conditional chains, comprehensions, yield ...);
           thorough adds depth 2 (a hazard expression inside a hazard expression)
  targets  every loop/assignment target shape x body that reassigns or deletes nothing
  imports  every import form (dotted, aliased, relative, several names)
  spaces   every program of the C01 (<= 2/3 nodes), C06 (<= 2/3 scopes), C08, C13-slice and C14
           spaces, supported or not
  corpus   modules of the host's standard library with unsupported statements replaced by `pass`
           (quick: the 60 smallest modules; thorough: every module below 400 statements)
  x 8 option combinations.
Oracle : convert_code_string either raises (any exception: allowed) or returns t with no '\\n'/'\\r'
         and compile(t, '<o>', 'eval') succeeds; for unparser=oneliner additionally
         parse(t) == the tree convert() returned (ties C02 to C03 on converter-emitted trees).
"""
import ast
import glob
import itertools
import os
import symtable
import sys
import time
import warnings

from .. import core
from .. import exprspace as X
from ..spaces import compose, scopes
from . import c03, c08, c13, c14

PID = "C02"
LEVEL = "exploration"

HAZARDS = {
    "name": "a", "int": "1", "neg": "-1", "bigint": str(10**30), "float": "1e309", "complex": "2j",
    "str-nl": "'a\\nb'", "str-triple": "'''l1\nl2'''", "str-quotes": "'it\\'s \"q\"'", "str-bs": "'\\\\'", "str-cr": "'a\\rb'", "str-ls": "'\\u2028\\x0c\\x85'",
    "bytes-nl": "b'a\\nb'", "str-concat": "'a' 'b'\n    'c'" if False else "'a' 'b'", "ellipsis": "...",
    "fstr": "f'{a}'", "fstr-nl": "f'{a}\\n{b!r:>{w}}'", "fstr-triple": "f'''x\n{a}\ny'''", "fstr-nested": "f'{f\"{a}\"}'", "fstr-dict": "f'{ {1: 2}[1] }'", "fstr-quote": "f'{a[\"k\"]}'",
    "fstr-lambda": "f'{(lambda: 1)()}'", "fstr-walrus": "f'{(w := 1)}'", "fstr-eq": "f'{a=}'", "fstr-spec-nested": "f'{a:{b}.{c}}'",
    "walrus": "(w := 1)", "walrus-nested": "[(w := (v := 2))]", "lambda": "lambda: 0", "lambda-args": "lambda p, /, q=1, *r, s=2, **t: (p, q)", "lambda-walrus": "lambda: (w := 1)",
    "ifexp": "1 if a else 2", "ifexp-chain": "1 if a else 2 if b else 3", "cmp-chain": "0 < a <= b != c", "not-in": "a not in b is not c", "boolop": "a and b or not c",
    "star-call": "f(*a, **b)", "genexp-arg": "f(i for i in a)", "genexp-kw": "f((i for i in a), k=1)", "call-kw-lambda": "f(k=lambda: 0)",
    "sub-slice": "a[1:2]", "sub-slice-step": "a[::2]", "sub-tuple": "a[1, 2]", "sub-slice-tuple": "a[1:2, ::3]", "sub-star": "a[(*b, 1)]", "sub-ellipsis": "a[..., 0]", "sub-walrus": "a[(w := 0)]",
    "attr-int": "(1).real", "attr-float": "1.5.real", "attr-call": "a.b(c).d", "pow-neg": "(-1) ** -a", "unary-chain": "not -~a", "matmul": "a @ b",
    "listcomp": "[i for i in a if i]", "listcomp2": "[(i, j) for i in a for j in b if i if j]", "dictcomp": "{k: v for k, v in a}", "setcomp": "{i for i in a}", "genexp": "(i for i in a)",
    "dict-star": "{**a, 1: 2}", "set": "{1, 2}", "tuple-star": "(*a, 1)", "tuple1": "(1,)", "empty-tuple": "()", "nested-parens": "((((a))))",
    "lambda-posonly-default": "lambda p, q=1, /: (p, q)", "lambda-posonly-default-mixed": "lambda p, q=1, /, r=2, *, s=3: p",
    "listcomp-walrus-if": "[y for x in a if (y := x)]", "call-kw-walrus": "f(k=(w := 1))", "lambda-default-walrus": "(lambda q=(w := 1): q)",
    "genexp-walrus-cond": "list(z for x in a if (z := x))", "dictcomp-walrus": "{(k := x): k for x in a}", "kwstar-walrus": "f(**{'k': (w := 1)})",
    "yield": "(yield)", "await": "(await a)", "long-binop": " + ".join(["a"] * 40), "starred-list": "[*a, *b]",
}
NEST = {
    "in-fstr": "f'{<E>}'", "in-fstr-spec": "f'{a:{<E>}}'", "in-lambda": "(lambda: <E>)", "in-call": "f(<E>, k=<E>)", "in-sub": "a[<E>]", "in-slice": "a[<E>:<E>]",
    "in-listcomp": "[<E> for i in a]", "in-compiter": "[i for i in <E>]", "in-ifexp": "(<E> if <E> else <E>)", "in-dict": "{<E>: <E>}", "in-walrus": "(w := <E>)", "in-attr": "(<E>).x",
    "in-binop": "(<E> ** <E>)", "in-not": "(not <E>)", "in-starred": "[*<E>]", "in-cmp": "(<E> < <E> < <E>)", "in-tuple": "(<E>,)",
}
TARGETS = ["x", "x, y", "x, *y", "*x, y", "(x, (y, z))", "[x, [y]]", "o.a", "o.a.b", "d[0]", "d[0:1]", "d[i, j]", "o.a, d[0]", "x, (o.a, *d[1:])", "d[f(1)].a", "*o.a,", "x,"]
DEFS = [
    "def f(a, b=1, /):\n    return a", "def f(a, /, b=2, *, c=3):\n    return a", "def f(a=0, b=1, /, c=2):\n    return a", "def f(*, a=1, b):\n    return b",
    "def f(a, *b, c, d=4, **e):\n    return a", "def f(a, b=[1, 2][0], /, *, c={'k': 1}['k']):\n    return a", "def f(a=(w := 1), /):\n    return a",
]
IMPORTS = [
    "import os", "import os.path", "import os.path as p", "import a.b.c", "import a.b.c as d", "import os, sys", "import os.path, sys as s, a.b",
    "from os import path", "from os import path as p, sep", "from os.path import join, split as sp", "from . import x", "from .. import x as y", "from .m import x",
    "from ..m.n import x, y as z", "from ... import q", "from os import (path,\n    sep)", "from __future__ import annotations",
]


def product_cases(depth):
    for hn, host in c08.EXPR_HOSTS.items():
        for en, e in HAZARDS.items():
            yield "c02:product:%s:%s" % (hn, en), host.replace("<E>", e)
        if depth >= 2:
            for nn, n in NEST.items():
                for en, e in HAZARDS.items():
                    yield "c02:product:%s:%s>%s" % (hn, nn, en), host.replace("<E>", n.replace("<E>", e))
    for i, t in enumerate(TARGETS):
        for form, tpl in (
            ("for", "for <T> in s:\n    pass\n"), ("for-else-break", "for <T> in s:\n    if c:\n        break\nelse:\n    pass\n"),
            ("for-reassign", "for <T> in s:\n    <T> = s2\n"), ("assign", "<T> = s\n"), ("chained", "<T> = q = s\n"), ("comp", "r = [0 for <T> in s]\n"),
            ("for-in-func", "def f():\n    for <T> in s:\n        return\n"), ("for-in-class", "class K:\n    for <T> in s:\n        pass\n"),
        ):
            yield "c02:targets:%s:%d" % (form, i), tpl.replace("<T>", t)
        for op in ("+=", "//=", "**=", "@="):
            if "," not in t and "*" not in t and "[" != t[0] and "(" != t[0]:
                yield "c02:targets:aug%s:%d" % (op, i), "%s %s s\n" % (t, op)
    for i, d in enumerate(DEFS):
        for form, tpl in (("module", "<D>\n"), ("class", "class K:\n    <D>\n"), ("func", "def outer():\n    <D>\n"), ("decorated", "@dec\n<D>\n")):
            yield "c02:defs:%s:%d" % (form, i), tpl.replace("<D>", d.replace("\n", "\n    ") if form in ("class", "func") else d)
    for i, imp in enumerate(IMPORTS):
        for form, tpl in (("module", "<I>\n"), ("func", "def f():\n    <I>\n"), ("class", "class K:\n    <I>\n"), ("loop", "for i in s:\n    <I>\n")):
            yield "c02:imports:%s:%d" % (form, i), tpl.replace("<I>", imp.replace("\n", "\n    ") if form != "module" else imp)


def space_cases(tier):
    mx = 2 if tier == "quick" else 3
    for size in range(1, mx + 1):
        for k, src in compose.programs(size):
            yield "c02:space:" + k, src
    for n in range(1, mx + 1):
        for shape in scopes.trees(n):
            for t in scopes.assign_roles(shape):
                yield "c02:space:c06:" + scopes.key(t), scopes.render(t)
    for k, src, _ in c08.cases():
        yield "c02:space:" + k, src
    for k, src in c13.slice_programs():
        yield "c02:space:" + k, src
    for caller in ("package",):
        for seq in c14.sequences(1 if tier == "quick" else 2, caller):
            for pl in ("module", "function", "class"):
                yield "c02:space:c14:%s:%s" % (pl, ";".join(f[0] for f in seq)), c14.render(seq, pl)


# --------------------------------------------------------------------------- corpus
class Strip(ast.NodeTransformer):
    """replace what the converter documents as unsupported by harmless supported nodes"""

    OK = (ast.Expr, ast.If, ast.While, ast.For, ast.Break, ast.Continue, ast.Pass, ast.Assign, ast.AnnAssign, ast.AugAssign,
          ast.FunctionDef, ast.Return, ast.Global, ast.Nonlocal, ast.ClassDef, ast.Import, ast.ImportFrom)

    def generic_visit(self, node):
        node = super().generic_visit(node)
        for f in ("body", "orelse"):
            b = getattr(node, f, None)
            if isinstance(b, list) and b and all(isinstance(x, ast.stmt) for x in b):
                pass
            elif isinstance(b, list) and not b and f == "body" and isinstance(node, (ast.FunctionDef, ast.ClassDef, ast.If, ast.For, ast.While, ast.Module)):
                setattr(node, f, [ast.Pass()])
        return node

    def visit(self, node):
        if isinstance(node, ast.stmt) and not isinstance(node, self.OK):
            return ast.copy_location(ast.Pass(), node)
        if isinstance(node, ast.ImportFrom) and any(a.name == "*" for a in node.names):
            return ast.copy_location(ast.Pass(), node)
        if isinstance(node, (ast.Yield, ast.YieldFrom, ast.Await)):
            return ast.copy_location(ast.Constant(value=None), node)
        if isinstance(node, ast.comprehension):
            node.is_async = 0
        return super().visit(node)


def count_stmts(tree):
    return sum(1 for n in ast.walk(tree) if isinstance(n, ast.stmt))


def corpus_sources(tier):
    files = c03.corpus_files()
    out = []
    for f in files:
        try:
            sz = os.path.getsize(f)
        except OSError:
            continue
        out.append((sz, f))
    out.sort()
    if tier == "quick":
        out = [x for x in out if x[0] > 200][:60]
    return [f for _, f in out]


def corpus_case(f, limit):
    try:
        with warnings.catch_warnings():
            warnings.simplefilter("ignore")
            tree = ast.parse(open(f, encoding="utf8").read())
        if count_stmts(tree) > limit:
            return None
        tree = ast.fix_missing_locations(Strip().visit(tree))
        src = ast.unparse(tree)
        compile(src, "<c>", "exec")
        return src
    except RecursionError:
        return None
    except Exception:
        return None


# --------------------------------------------------------------------------- oracle
_convert_internal = None


def judge(res, key, src, cfgs):
    global _convert_internal
    try:
        with warnings.catch_warnings():
            warnings.simplefilter("ignore")
            ast.parse(src)
    except (SyntaxError, ValueError, RecursionError):
        res.c["skipped:not_a_syntactically_valid_module"] += 1
        return
    res.c["programs"] += 1
    accepted = 0
    for ci in cfgs:
        res.c["executions"] += 1
        try:
            with warnings.catch_warnings():
                warnings.simplefilter("ignore")
                text = core.convert(src, ci)
        except core.ConversionTimeout as e:
            res.fail(key, ci, "rejects", str(e), {"source": src[:3000]})
            continue
        except Exception:
            res.c["rejected_executions"] += 1
            continue
        except RecursionError:
            res.c["rejected_executions"] += 1
            continue
        accepted += 1
        why = core.is_single_line_expr(text)
        if why:
            res.fail(key, ci, "malformed", why, {"source": src[:3000], "output": text[:1500]})
            continue
        if core.CONFIGS[ci][0] == "oneliner" and len(text) < 20000:
            # the text of the custom unparser must denote the tree the converter emitted
            try:
                if _convert_internal is None:
                    from oneliner.convert import convert as _c

                    _convert_internal = _c
                random_state = __import__("random").getstate()
                tree = _convert_internal(ast.parse(src), symtable.symtable(src, "<s>", "exec"), core.mk_cfg(ci))
                __import__("random").setstate(random_state)
                a = core.norm_ol(X.ndump(ast.parse(text, mode="eval").body))
                b = core.norm_ol(X.ndump(tree))
                if a != b:
                    res.fail(key, ci, "malformed", "text of the oneliner unparser does not denote the tree convert() emitted", {"source": src[:3000], "output": text[:1500]})
            except Exception as e:
                res.notes["tree comparison skipped (%s)" % type(e).__name__] += 1
    if accepted:
        res.c["programs_accepted_by_some_configuration"] += 1


def run_shard(shard):
    res = core.ShardResult()
    kind = shard[0]
    if kind == "product":
        _, depth, r, k, cfgs = shard
        for idx, (key, src) in enumerate(product_cases(depth)):
            if idx % k == r:
                judge(res, key, src, cfgs)
                if idx % 499 == 0:
                    res.sample({"key": key, "source": src}, 1)
    elif kind == "space":
        _, tier, r, k, cfgs = shard
        for idx, (key, src) in enumerate(space_cases(tier)):
            if idx % k == r:
                judge(res, key, src, cfgs)
    else:
        _, files, limit, cfgs = shard
        for f in files:
            src = corpus_case(f, limit)
            if src is None:
                res.c["corpus_files_skipped_(too_large_or_unstrippable)"] += 1
                continue
            res.c["corpus_files"] += 1
            judge(res, "c02:corpus:" + os.path.relpath(f, os.path.dirname(os.__file__)), src, cfgs)
    return res


def main(tier, seed, collect=None):
    t0 = time.time()
    cfgs = core.ALL_CFG
    sh = []
    kp = 32 if tier == "quick" else 128
    for r in range(kp):
        sh.append(("product", 1 if tier == "quick" else 2, r, kp, cfgs))
    ks = 64 if tier == "quick" else 512
    for r in range(ks):
        sh.append(("space", tier, r, ks, cfgs if tier == "thorough" else [2, 5]))
    files = corpus_sources(tier)
    for ch in core.chunked(files, 4):
        sh.append(("corpus", ch, 150 if tier == "quick" else 400, cfgs if tier == "thorough" else [2, 4, 7]))
    total = core.run_shards(run_shard, sh, seed=seed, pid=PID)
    other_hosts = core.run_on_hosts(PID, ["py310", "py311", "py313"], "quick", seed, total) if tier == "thorough" else []

    c = total.c
    cov = {
        "converter_hosts": [core.HOST] + other_hosts,
        "evaluations": c["executions"],
        "distinct_nontrivial": c["programs_accepted_by_some_configuration"],
        "rule": "every member of the families is one syntactically valid module (distinct key); non-trivial = at least one configuration accepts "
        "it, so the returned text is judged (rejections are allowed by the property and only counted)",
        "exhaustive": True,
        "programs": c["programs"],
        "rejected_executions": c["rejected_executions"],
        "hosts": len(c08.EXPR_HOSTS),
        "hazard_expressions": len(HAZARDS),
        "nesting_wrappers": len(NEST) if tier == "thorough" else 0,
        "corpus_files": c["corpus_files"],
        "states": c["programs"],
        "transitions": c["executions"],
        "traces_validated_against_impl": c["executions"] - c["rejected_executions"],
    }
    assumptions = [
        "compile(text, '<o>', 'eval') of CPython %s decides 'is one expression'; a line break is LF or CR" % core.HOST,
        "'every syntactically valid module' is approximated by the construct product, the generated program spaces and the (finite, fixed) stdlib corpus",
    ]
    return core.finish(PID, tier, seed, LEVEL, total, cov, assumptions, t0, collect)


def replay(payload):
    src = (payload.get("extra") or {}).get("source")
    if src is None:
        print("no source in replay file")
        return 2
    res = core.ShardResult()
    judge(res, payload["key"], src, [payload["cfg"]] if payload.get("cfg") is not None else core.ALL_CFG)
    for f in res.fails:
        print("still failing:", f[0], core.cfg_name(f[1]), f[3], f[4])
    return 1 if res.fails else 0

"""Common machinery: repo import, option matrix, worker pool, findings, evidence, replays.

Everything here is stdlib-only and runs under /venv/bin/python (3.12) as the primary host.
"""
import collections
import contextlib
import hashlib
import io
import json
import multiprocessing as mp
import os
import random
import re
import signal
import sys
import time
import traceback

VERIF = os.path.dirname(os.path.dirname(os.path.abspath(__file__)))
REPO = os.environ.get("VF_REPO", "/repo")
HOST = "py%d%d" % sys.version_info[:2]
NPROC = int(os.environ.get("VF_NPROC", "16"))

PYENV = "/root/.pyenv/versions"
INTERPRETERS = {
    "py38": PYENV + "/3.8.18/bin/python3",
    "py39": PYENV + "/3.9.18/bin/python3",
    "py310": PYENV + "/3.10.13/bin/python3",
    "py311": PYENV + "/3.11.7/bin/python3",
    "py312": "/venv/bin/python",
    "py313": PYENV + "/3.13.0/bin/python3",
}


def interpreter(host):
    p = INTERPRETERS.get(host)
    return p if p and os.path.exists(p) else None


# --------------------------------------------------------------------------- repo import
_ol = None


def ol():
    """Import `oneliner` from REPO's current working tree (never from a stale cache)."""
    global _ol
    if _ol is None:
        sys.dont_write_bytecode = True
        rp = os.path.realpath(REPO)
        if not sys.path or os.path.realpath(sys.path[0] or ".") != rp:
            sys.path.insert(0, rp)
        import oneliner  # noqa
        import oneliner.config  # noqa

        got = os.path.realpath(os.path.dirname(os.path.dirname(oneliner.__file__)))
        if got != rp:
            raise HarnessError("oneliner imported from %s, expected %s" % (got, rp))
        _ol = oneliner
    return _ol


class HarnessError(Exception):
    pass


# --------------------------------------------------------------------------- option matrix
CONFIGS = [
    (u, w, s)
    for u in ("ast.unparse", "oneliner")
    for w in ("list", "chain_call")
    for s in ("if_expr", "short_circuit")
]
ALL_CFG = list(range(8))
# two "corner" configurations: the default one and its complement
CORNER_CFG = [2, 5]  # (ast.unparse, chain_call, if_expr) = default ; (oneliner, list, short_circuit)


def cfg_name(i):
    return "-" if i is None else "%s/%s/%s" % CONFIGS[i]


def mk_cfg(i):
    """A fresh options object with all three options set explicitly."""
    o = ol()
    c = o.config.Configs()
    c.unparser, c.expr_wrapper, c.if_style = CONFIGS[i]
    return c


# --------------------------------------------------------------------------- watchdog
class Timeout(BaseException):
    pass


def _alarm(signum, frame):
    raise Timeout()


@contextlib.contextmanager
def time_limit(seconds):
    old = signal.signal(signal.SIGALRM, _alarm)
    signal.setitimer(signal.ITIMER_REAL, seconds)
    try:
        yield
    finally:
        signal.setitimer(signal.ITIMER_REAL, 0)
        signal.signal(signal.SIGALRM, old)


CONVERT_LIMIT = 30.0


class ConversionTimeout(Exception):
    pass


def convert(src, i):
    """convert_code_string under a watchdog (a conversion normally takes about a millisecond)."""
    for attempt in range(4):
        c0 = time.process_time()
        try:
            with time_limit(CONVERT_LIMIT):
                return ol().convert_code_string(src, configs=mk_cfg(i))
        except Timeout:
            # the watchdog measures wall-clock time: on an overloaded machine a starved worker must not be mistaken for
            # a conversion that does not terminate - only CPU time actually spent in the conversion counts
            if time.process_time() - c0 < CONVERT_LIMIT * 0.5 and attempt < 3:
                continue
            raise ConversionTimeout("conversion did not finish within %gs" % CONVERT_LIMIT)



# --------------------------------------------------------------------------- text helpers
_OLRE = re.compile(r"__ol_([a-z]+)_[a-z]{10}")


def norm_ol(text):
    """First-occurrence renaming of __ol_<purpose>_<suffix> temporaries."""
    m = {}

    def sub(mo):
        k = mo.group(0)
        if k not in m:
            m[k] = "__ol_%s_%d" % (mo.group(1), len(m))
        return m[k]

    return _OLRE.sub(sub, text)


def scrub(text):
    """Normalise an exception message: helper names, lambda/function names, addresses."""
    text = _OLRE.sub(lambda mo: "__ol_%s_X" % mo.group(1), str(text))
    text = re.sub(r"0x[0-9a-fA-F]+", "0x?", text)
    return text[:160]


def is_single_line_expr(text):
    """C02's notion: no physical line break and compiles in eval mode. Returns None or reason."""
    if not isinstance(text, str):
        return "not a string: %r" % type(text)
    if "\n" in text or "\r" in text:
        return "contains a line break"
    try:
        import warnings

        with warnings.catch_warnings():
            warnings.simplefilter("ignore")
            compile(text, "<o>", "eval")
    except (SyntaxError, ValueError) as e:
        return "does not compile: %s" % scrub(e)
    except (RecursionError, MemoryError) as e:
        return "does not compile: %s" % type(e).__name__
    return None


def sha(*parts):
    h = hashlib.sha1()
    for p in parts:
        h.update(repr(p).encode("utf8", "backslashreplace"))
        h.update(b"\0")
    return h.hexdigest()


# --------------------------------------------------------------------------- findings
class Findings:
    """Known findings: identity is the exact input (case key, host, configuration)."""

    def __init__(self, pid):
        self.pid = pid
        self.open = {}  # kfid -> dict(desc, cases_file, n)
        self.fixed = []
        self.index = {}  # (key, host) -> list[(mask, kfid, klass)]
        path = os.path.join(VERIF, "known_findings.txt")
        if not os.path.exists(path):
            return
        for line in open(path, encoding="utf8"):
            line = line.strip()
            if not line or line.startswith("#"):
                continue
            if line.startswith("fixed:"):
                if ("property=%s " % pid) in line:
                    self.fixed.append(line)
                continue
            if not line.startswith("open:"):
                continue
            head, _, desc = line.partition("::")
            f = dict(x.split("=", 1) for x in head.split()[1:] if "=" in x)
            if f.get("property") != pid:
                continue
            kfid = f["id"]
            self.open[kfid] = {"desc": desc.strip(), "cases": f.get("cases"), "n": 0, "hits": 0}
            cpath = os.path.join(VERIF, f["cases"])
            for cl in open(cpath, encoding="utf8"):
                cl = cl.rstrip("\n")
                if not cl or cl.startswith("#"):
                    continue
                key, host, mask, klass = cl.split("\t")
                self.index.setdefault((key, host), []).append((int(mask, 16), kfid, klass))
                self.open[kfid]["n"] += 1

    def lookup(self, key, host, cfg):
        bit = 1 << (cfg or 0)
        for mask, kfid, klass in self.index.get((key, host), ()):
            if mask & bit:
                return kfid
        return None


# --------------------------------------------------------------------------- results
class Fail:
    __slots__ = ("key", "cfg", "host", "klass", "detail", "extra")

    def __init__(self, key, cfg, klass, detail, extra=None, host=None):
        self.key, self.cfg, self.klass = key, cfg, klass
        self.detail = scrub(detail)
        self.extra = extra
        self.host = host or HOST

    def tup(self):
        return (self.key, self.cfg, self.host, self.klass, self.detail, self.extra)


class ShardResult:
    """What one shard returns to the parent (picklable, bounded)."""

    MAX_EXTRA = 40

    def __init__(self):
        self.c = collections.Counter()
        self.fails = []
        self.samples = []
        self.notes = collections.Counter()

    def fail(self, key, cfg, klass, detail, extra=None, host=None):
        if len(self.fails) >= self.MAX_EXTRA:
            extra = None
        self.fails.append(Fail(key, cfg, klass, detail, extra, host).tup())

    def sample(self, s, limit=2):
        if len(self.samples) < limit:
            self.samples.append(s)


def _worker_init(seed):
    random.seed(seed)
    try:
        import resource

        lim = 3 << 30
        resource.setrlimit(resource.RLIMIT_AS, (lim, lim))
    except Exception:
        pass


def _call(args):
    fn, shard = args
    try:
        return ("ok", shard, fn(shard))
    except BaseException:  # harness failure inside a worker: report, never swallow
        return ("err", shard, traceback.format_exc())


ABORT_AFTER = int(os.environ.get("VF_ABORT_AFTER", "400"))
# wall-clock budget of one exploration (set from the tier by the CLI): a run that exceeds it is cut short;
# it is then a verdict only if unlisted violations were already found, otherwise a harness error
WALL_BUDGET = float(os.environ.get("VF_MAX_WALL", "0") or 0)


def run_shards(fn, shards, seed=0, nproc=None, progress=None, pid=None):
    """Run fn(shard) -> ShardResult over all shards on a fork pool; merge.

    When `pid` is given, failures are matched against the known findings as they arrive and the
    exploration stops early once more than ABORT_AFTER distinct unlisted inputs have failed (the
    verdict is then already decided; the evidence says the run was cut short)."""
    nproc = nproc or NPROC
    shards = list(shards)
    if shards:
        r = seed % len(shards)
        shards = shards[r:] + shards[:r]  # the seed only rotates dispatch order
    total = ShardResult()
    total.MAX_EXTRA = 10**9
    total.aborted = False
    kf = Findings(pid) if pid else None
    unknown_keys = set()
    errors = []
    ol()  # import before forking
    if nproc <= 1 or len(shards) <= 1:
        _worker_init(seed)
        it = map(_call, [(fn, s) for s in shards])
        pool = None
    else:
        ctx = mp.get_context("fork")
        pool = ctx.Pool(min(nproc, len(shards)), initializer=_worker_init, initargs=(seed,))
        it = pool.imap_unordered(_call, [(fn, s) for s in shards], chunksize=1)
    done = 0
    t_start = time.time()
    try:
        while True:
            try:
                if pool is None:
                    st, shard, res = next(it)
                else:
                    st, shard, res = it.next(timeout=5)
            except StopIteration:
                break
            except (MemoryError, EOFError, OSError, RuntimeError) as e:
                # a result could not be produced/transferred (e.g. a worker hit its address-space limit while pickling)
                done += 1
                errors.append(("?", "%s while receiving a shard result: %s" % (type(e).__name__, e)))
                continue
            except mp.TimeoutError:
                if WALL_BUDGET and time.time() - t_start > WALL_BUDGET:
                    total.aborted = True
                    total.budget_exceeded = True
                    total.c["shards_not_run_after_abort"] = len(shards) - done
                    break
                continue
            done += 1
            if st == "err":
                errors.append((shard, res))
                continue
            total.c.update(res.c)
            total.notes.update(res.notes)
            total.fails.extend(res.fails)
            if kf is not None:
                for f in res.fails:
                    if kf.lookup(f[0], f[2], f[1]) is None:
                        unknown_keys.add(f[0])
                if len(unknown_keys) > ABORT_AFTER:
                    total.aborted = True
                    total.c["shards_not_run_after_abort"] = len(shards) - done
                    break
            for s in res.samples:
                total.sample(s, 6)
            if progress and done % progress == 0:
                print("  .. %d/%d shards" % (done, len(shards)), file=sys.stderr, flush=True)
    finally:
        if pool is not None:
            pool.terminate()
            pool.join()
    if errors and not unknown_keys:
        raise HarnessError("worker failure in shard %r:\n%s" % errors[0])
    if errors:
        # violations were found anyway: they stand; the worker failures are reported next to them
        total.notes["%d shards died in the harness (first: %s)" % (len(errors), errors[0][1].strip().splitlines()[-1][:120])] += 1
        total.aborted = True
    if getattr(total, "budget_exceeded", False) and not unknown_keys:
        raise HarnessError("wall-clock budget of %.0fs exceeded without a verdict (%d of %d shards done)" % (WALL_BUDGET, done, len(shards)))
    return total


# --------------------------------------------------------------------------- reporting
def write_replay(pid, fail):
    key, cfg, host, klass, detail, extra = fail
    d = os.path.join(os.environ.get("VF_REPLAY_DIR") or os.path.join(VERIF, "replays"), pid)
    os.makedirs(d, exist_ok=True)
    path = os.path.join(d, sha(key, cfg, host)[:14] + ".json")
    with open(path, "w", encoding="utf8") as f:
        json.dump(
            {
                "property": pid,
                "key": key,
                "cfg": cfg,
                "cfg_name": cfg_name(cfg),
                "host": host,
                "class": klass,
                "detail": detail,
                "extra": extra,
            },
            f,
            indent=1,
            ensure_ascii=True,
            default=repr,
        )
    return path


def finish(pid, tier, seed, level, total, coverage, assumptions, t0, collect=None, extra_lines=()):
    """Match failures against known findings, print the protocol lines, write evidence.

    Returns the process exit status (0 = held / only listed findings, 1 = violation)."""
    kf = Findings(pid)
    unknown = []
    known = collections.Counter()
    known_inputs = set()
    seen = set()
    for f in total.fails:
        ident = (f[0], f[1], f[2])
        if ident in seen:
            continue
        seen.add(ident)
        k = kf.lookup(f[0], f[2], f[1])
        if k is None:
            unknown.append(f)
        elif (k, f[0], f[2]) not in known_inputs:
            known_inputs.add((k, f[0], f[2]))
            known[k] += 1
    if collect:
        with open(collect, "w", encoding="utf8") as fh:
            json.dump([list(f[:5]) + [f[5]] for f in total.fails], fh, default=repr)
    for line in extra_lines:
        print(line)
    for kfid, info in sorted(kf.open.items()):
        n = known.get(kfid, 0)
        if n:
            print(
                "KNOWN-FINDING: property=%s %s %s (%d of %d listed inputs reproduced in this tier)"
                % (pid, kfid, info["desc"], n, info["n"])
            )
        else:
            print(
                "NOTE: property=%s finding %s did not reproduce in this tier's space (0 of %d listed inputs failed)"
                % (pid, kfid, info["n"])
            )
    # write replays for unknown failures (bounded), simplest (= earliest key order) first
    unknown.sort(key=lambda f: (f[0].count(">") + f[0].count("["), len(f[0]), f[0], f[1] or 0))
    shown = 0
    by_key = collections.OrderedDict()
    for f in unknown:
        by_key.setdefault(f[0], []).append(f)
    for key, fs in by_key.items():
        if shown >= 25:
            break
        f = next((x for x in fs if x[5] is not None), fs[0])
        path = write_replay(pid, f)
        print("VIOLATION property=%s replay=%s" % (pid, path))
        print(
            "   case=%s cfg=%s host=%s class=%s (%d configurations fail): %s"
            % (key[:200], cfg_name(f[1]), f[2], f[3], len(fs), f[4])
        )
        shown += 1
    if len(by_key) > shown:
        print("   ... and %d more failing inputs not listed in known findings" % (len(by_key) - shown))
    cov = dict(coverage)
    if getattr(total, "aborted", False):
        cov["exhaustive"] = False
        cov["cut_short"] = "stopped early (more than %d distinct unlisted failing inputs, wall-clock budget, or shards lost)" % ABORT_AFTER
        print("NOTE: exploration stopped early: the verdict was already decided by unlisted failing inputs")
    cov.setdefault("samples", total.samples[:6])
    cov["failing_executions_listed_as_known"] = sum(known.values())
    cov["failing_executions_unlisted"] = len(unknown)
    cov["counters"] = dict(total.c)
    if total.notes:
        cov["notes"] = dict(total.notes)
    ev = {
        "property_id": pid,
        "tier": tier,
        "seed": seed,
        "level": level,
        "coverage": cov,
        "assumptions": list(assumptions),
        "wall_s": round(time.time() - t0, 2),
        "violations": len(by_key),
        "known_findings_reproduced": dict(known),
        "host": HOST,
        "repo": REPO,
    }
    evdir = os.environ.get("VF_EVIDENCE_DIR") or os.path.join(VERIF, "evidence")
    os.makedirs(evdir, exist_ok=True)
    with open(os.path.join(evdir, pid + ".json"), "w", encoding="utf8") as fh:
        json.dump(ev, fh, indent=1, default=repr)
    status = 1 if unknown else 0
    print(
        "%s tier=%s seed=%d: %s; wall %.1fs; %s"
        % (
            pid,
            tier,
            seed,
            "VIOLATIONS=%d" % len(by_key) if unknown else "held on everything explored",
            time.time() - t0,
            ", ".join("%s=%s" % kv for kv in sorted(total.c.items())),
        )
    )
    return status


def run_on_hosts(pid, hosts, subtier, seed, total):
    """Run the same check with the CONVERTER hosted on other interpreters (thorough tiers).

    Each host runs `python -m vf.cli <pid> --tier <subtier> --collect <tmp>` with its evidence and
    replays redirected; its failing executions (host field = that interpreter) and counters are
    merged into `total`. A missing interpreter is reduced coverage, never a violation."""
    import shutil
    import subprocess
    import tempfile

    if os.environ.get("VF_HOSTRUN"):
        return []
    ran = []
    for h in hosts:
        interp = interpreter(h)
        if h == HOST:
            continue
        if not interp:
            total.notes["host %s is not installed: reduced coverage" % h] += 1
            continue
        tmp = tempfile.mkdtemp(prefix="vf-host-%s-" % h, dir="/var/tmp")
        try:
            env = dict(os.environ, PYTHONPATH=VERIF, PYTHONDONTWRITEBYTECODE="1", VF_HOSTRUN="1", VF_EVIDENCE_DIR=tmp,
                       VF_REPLAY_DIR=os.path.join(tmp, "r"), VF_ABORT_AFTER=str(ABORT_AFTER), VERIF_SEED=str(seed), PYTHONPYCACHEPREFIX=os.path.join(tmp, "pyc"))
            out = os.path.join(tmp, "collect.json")
            p = subprocess.run([interp, "-m", "vf.cli", pid, "--tier", subtier, "--collect", out], env=env, capture_output=True, text=True, cwd=VERIF)
            if p.returncode not in (0, 1) or not os.path.exists(out):
                raise HarnessError("check %s under host %s failed (rc=%s): %s" % (pid, h, p.returncode, (p.stdout + p.stderr)[-600:]))
            for f in json.load(open(out)):
                total.fails.append(tuple(f[:5]) + (f[5] if len(f) > 5 else None,))
            try:
                ev = json.load(open(os.path.join(tmp, pid + ".json")))
                for k, v in ev["coverage"].get("counters", {}).items():
                    total.c["%s:%s" % (h, k)] += v
                total.c["evaluations_on_other_hosts"] += ev["coverage"].get("evaluations", 0)
            except Exception:
                pass
            ran.append(h)
        finally:
            shutil.rmtree(tmp, ignore_errors=True)
    return ran


def chunked(it, n):
    buf = []
    for x in it:
        buf.append(x)
        if len(buf) >= n:
            yield buf
            buf = []
    if buf:
        yield buf

"""Differential execution of one program: exec(source) under CPython vs eval(converted) for each
option combination, compared with the C01 oracle (observe.compare)."""
from . import core, observe


def reference(res, src, env=None, limit=5.0, name="__main__"):
    """Returns (code, Obs) or None when the program is outside the fragment (counted)."""
    try:
        code = compile(src, "<src>", "exec")
    except (SyntaxError, ValueError) as e:
        res.c["skipped:cpython_rejects_source"] += 1
        return None
    ref, _ = observe.run(code, "exec", env() if env else None, limit=limit, name=name)
    if ref.outcome[0] == "timeout":
        res.c["skipped:reference_timeout"] += 1
        return None
    if ref.outcome[0] != "ok":
        res.c["skipped:reference_raises"] += 1
        res.notes["reference raises " + ref.outcome[1]] += 1
        return None
    return code, ref


def check_program(res, key, src, cfgs=None, env=None, limit=5.0, name="__main__", ref=None, extra_cmp=None):
    """Run the full oracle for one program. Returns number of failing configurations, or None if skipped."""
    if ref is None:
        r = reference(res, src, env, limit, name)
        if r is None:
            return None
        ref = r[1]
    res.c["programs_in_scope"] += 1
    nfail = 0
    for ci in cfgs if cfgs is not None else core.ALL_CFG:
        res.c["executions"] += 1
        try:
            text = core.convert(src, ci)
        except Exception as e:
            res.fail(key, ci, "rejects", "%s: %s" % (type(e).__name__, e), {"source": src})
            nfail += 1
            continue
        why = core.is_single_line_expr(text)
        if why:
            res.fail(key, ci, "malformed", why, {"source": src, "output": text[:3000]})
            nfail += 1
            continue
        got, _ = observe.run(text, "eval", env() if env else None, limit=limit, name=name)
        if got.outcome[0] == "timeout":
            # never report a timeout from a loaded worker: re-run alone-ish with ten times the budget
            got, _ = observe.run(text, "eval", env() if env else None, limit=limit * 10, name=name)
        d = observe.compare(ref, got)
        if d is None and extra_cmp is not None:
            d = extra_cmp(ref, got)
        if d:
            res.fail(key, ci, "misbehaves", d, {"source": src, "output": text[:3000], "expected": ref.short(), "actual": got.short()})
            nfail += 1
    return nfail

"""Differential execution of one program: exec(source) under CPython vs eval(converted) for each
option combination, compared with the C01 oracle (observe.compare)."""
import json
import os
import subprocess
import sys

from . import core, observe

# CPython 3.12.1 and 3.13.0 (the interpreters of this image) mis-execute some inlined comprehensions (PEP 709 promises
# no visible change, but): inside a function a sibling comprehension reading a global named like an earlier
# comprehension's target raises UnboundLocalError (3.12.1), and a comprehension target captured by a lambda/generator
# inside the comprehension leaks into the enclosing scope's variable of the same name (3.12.1 and 3.13.0, class and
# function scopes). These hit the SOURCE or the (correct) converted text. Python 3.11 implements the language
# reference's comprehension scoping without inlining, so on a host >= 3.12 a behavioural discrepancy only counts if it
# is reproduced - same source, same text - on 3.11 (on 3.13 when 3.11 is missing or cannot run the source).
BUGGY_312 = sys.version_info >= (3, 12)


def confirmed_elsewhere(src, text, envname):
    """True unless another runtime finds the converted text equivalent to the source (then the discrepancy is the host's)."""
    if not BUGGY_312:
        return True
    for host in ("py311", "py313"):
        interp = core.interpreter(host)
        if not interp:
            continue
        doc = {"op": "check", "repo": core.REPO, "jobs": [["k", src, envname, [[0, text]]]]}
        env = dict(os.environ, PYTHONPATH=core.VERIF, PYTHONDONTWRITEBYTECODE="1", PYTHONHASHSEED="0")
        try:
            p = subprocess.run([interp, os.path.join(core.VERIF, "vf", "hostworker.py")], input=json.dumps(doc), capture_output=True, text=True, env=env, timeout=300)
            res = json.loads(p.stdout)
        except Exception:
            continue
        key, st, rs = res[0]
        if st != "ok":
            continue  # the source does not run there (newer syntax): ask the next runtime
        return bool(rs and rs[0][1])
    return True


def reference(res, src, env=None, limit=5.0, name="__main__"):
    """Returns (code, Obs) or None when the program is outside the fragment (counted)."""
    try:
        code = compile(src, "<src>", "exec")
    except (SyntaxError, ValueError) as e:
        res.c["skipped:cpython_rejects_source"] += 1
        return None
    ref, _ = observe.run(code, "exec", env() if env else None, limit=limit, name=name)
    if ref.outcome[0] == "timeout":
        # a loaded worker must not silently shrink the space: try again with ten times the budget
        ref, _ = observe.run(code, "exec", env() if env else None, limit=limit * 10, name=name)
    if ref.outcome[0] == "timeout":
        res.c["skipped:reference_timeout"] += 1
        return None
    if ref.outcome[0] != "ok":
        res.c["skipped:reference_raises"] += 1
        res.notes["reference raises " + ref.outcome[1]] += 1
        return None
    return code, ref


def check_program(res, key, src, cfgs=None, env=None, limit=5.0, name="__main__", ref=None, extra_cmp=None, envname=None):
    """Run the full oracle for one program. Returns number of failing configurations, or None if skipped."""
    if ref is None:
        r = reference(res, src, env, limit, name)
        if r is None:
            return None
        ref = r[1]
    res.c["programs_in_scope"] += 1
    nfail = 0
    for ci in cfgs if cfgs is not None else core.ALL_CFG:
        res.c["executions"] += 1
        try:
            text = core.convert(src, ci)
        except Exception as e:
            res.fail(key, ci, "rejects", "%s: %s" % (type(e).__name__, e), {"source": src})
            nfail += 1
            continue
        why = core.is_single_line_expr(text)
        if why:
            res.fail(key, ci, "malformed", why, {"source": src, "output": text[:3000]})
            nfail += 1
            continue
        got, _ = observe.run(text, "eval", env() if env else None, limit=limit, name=name)
        if got.outcome[0] == "timeout":
            # never report a timeout from a loaded worker: re-run alone-ish with ten times the budget
            got, _ = observe.run(text, "eval", env() if env else None, limit=limit * 10, name=name)
        d = observe.compare(ref, got)
        if d is None and extra_cmp is not None:
            d = extra_cmp(ref, got)
        if d and (env is None or envname) and name == "__main__" and not confirmed_elsewhere(src, text, envname):
            res.c["skipped:discrepancy_not_reproduced_on_3.11_(cpython_3.12/3.13_comprehension_inlining_bugs)"] += 1
            continue
        if d:
            res.fail(key, ci, "misbehaves", d, {"source": src, "output": text[:3000], "expected": ref.short(), "actual": got.short()})
            nfail += 1
    return nfail

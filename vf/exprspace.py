"""Expression-tree space shared by C03/C04/C15: slots (one child position of one node kind),
leaves, normalised dump and the round-trip judge for the project's own unparser."""
import ast
import sys
import warnings
from ast import *  # noqa

PY = sys.version_info[:2]


def N(s="a"):
    return Name(id=s, ctx=Load())


def St(s="t"):
    return Name(id=s, ctx=Store())


def A0():
    return arguments(posonlyargs=[], args=[], kwonlyargs=[], kw_defaults=[], defaults=[])


def comp(t, i, ifs=(), is_async=0):
    return comprehension(target=t, iter=i, ifs=list(ifs), is_async=is_async)


BINOPS = [Add, Sub, Mult, MatMult, Div, FloorDiv, Mod, Pow, LShift, RShift, BitOr, BitXor, BitAnd]
UNARYOPS = [UAdd, USub, Invert, Not]
BOOLOPS = [And, Or]
CMPOPS = [Eq, NotEq, Lt, LtE, Gt, GtE, Is, IsNot, In, NotIn]


def operator_tables():
    """Operator catalogue read from the implementation (falls back to the static one)."""
    note = None
    try:
        from . import core

        core.ol()
        import oneliner.expr_unparse as eu

        b = [k for k in eu.operator_map]
        u = [k for k in eu.unaryop_map]
        bo = [k for k in eu.boolop_map]
        c = [k for k in eu.cmpop_map]
        for have, want, nm in ((b, BINOPS, "binop"), (u, UNARYOPS, "unaryop"), (bo, BOOLOPS, "boolop"), (c, CMPOPS, "cmpop")):
            if set(have) != set(want):
                note = "implementation %s table differs from the language's operator set" % nm
        # the language's set is what must round-trip; the implementation's table only adds to it
        return (
            BINOPS + [x for x in b if x not in BINOPS],
            UNARYOPS + [x for x in u if x not in UNARYOPS],
            BOOLOPS + [x for x in bo if x not in BOOLOPS],
            CMPOPS + [x for x in c if x not in CMPOPS],
            note,
        )
    except Exception as e:  # internal names moved: static catalogue
        return BINOPS, UNARYOPS, BOOLOPS, CMPOPS, "static catalogue used (%s)" % type(e).__name__


def build_slots():
    binops, unaryops, boolops, cmpops, note = operator_tables()
    S = []
    for op in binops:
        S.append(("BinOp.%s.left" % op.__name__, lambda c, op=op: BinOp(left=c, op=op(), right=N("b"))))
        S.append(("BinOp.%s.right" % op.__name__, lambda c, op=op: BinOp(left=N("b"), op=op(), right=c)))
    for op in unaryops:
        S.append(("UnaryOp.%s" % op.__name__, lambda c, op=op: UnaryOp(op=op(), operand=c)))
    for op in boolops:
        for pos in range(3):
            S.append(
                (
                    "BoolOp.%s.%d" % (op.__name__, pos),
                    lambda c, op=op, pos=pos: BoolOp(op=op(), values=[c if i == pos else N("b%d" % i) for i in range(3)]),
                )
            )
    for op in cmpops:
        S.append(("Compare.%s.left" % op.__name__, lambda c, op=op: Compare(left=c, ops=[op()], comparators=[N("b")])))
        S.append(("Compare.%s.right" % op.__name__, lambda c, op=op: Compare(left=N("b"), ops=[op()], comparators=[c])))
        S.append(("Compare.%s.mid" % op.__name__, lambda c, op=op: Compare(left=N("b"), ops=[op(), Lt()], comparators=[c, N("d")])))
    S += [
        ("IfExp.body", lambda c: IfExp(test=N("p"), body=c, orelse=N("q"))),
        ("IfExp.test", lambda c: IfExp(test=c, body=N("p"), orelse=N("q"))),
        ("IfExp.orelse", lambda c: IfExp(test=N("p"), body=N("q"), orelse=c)),
        ("Lambda.body", lambda c: Lambda(args=A0(), body=c)),
        ("Lambda.default", lambda c: Lambda(args=arguments(posonlyargs=[], args=[arg(arg="x")], kwonlyargs=[], kw_defaults=[], defaults=[c]), body=N("x"))),
        ("Lambda.posdefault", lambda c: Lambda(args=arguments(posonlyargs=[arg(arg="x")], args=[arg(arg="y")], kwonlyargs=[], kw_defaults=[], defaults=[c, N("d")]), body=N("x"))),
        ("Lambda.kwdefault", lambda c: Lambda(args=arguments(posonlyargs=[], args=[], kwonlyargs=[arg(arg="x")], kw_defaults=[c], defaults=[]), body=N("x"))),
        ("Lambda.kwdefault2", lambda c: Lambda(args=arguments(posonlyargs=[], args=[arg(arg="w")], vararg=arg(arg="r"), kwonlyargs=[arg(arg="x"), arg(arg="y")], kw_defaults=[None, c], kwarg=arg(arg="k"), defaults=[]), body=N("x"))),
        ("Call.func", lambda c: Call(func=c, args=[], keywords=[])),
        ("Call.onlyarg", lambda c: Call(func=N("f"), args=[c], keywords=[])),
        ("Call.arg0of2", lambda c: Call(func=N("f"), args=[c, N("b")], keywords=[])),
        ("Call.arg1of2", lambda c: Call(func=N("f"), args=[N("b"), c], keywords=[])),
        ("Call.argbeforekw", lambda c: Call(func=N("f"), args=[c], keywords=[keyword(arg="k", value=N("b"))])),
        ("Call.argbeforestarstar", lambda c: Call(func=N("f"), args=[c], keywords=[keyword(arg=None, value=N("b"))])),
        ("Call.kwvalue", lambda c: Call(func=N("f"), args=[], keywords=[keyword(arg="k", value=c)])),
        ("Call.starstar", lambda c: Call(func=N("f"), args=[], keywords=[keyword(arg=None, value=c)])),
        ("Call.star", lambda c: Call(func=N("f"), args=[Starred(value=c, ctx=Load())], keywords=[])),
        ("Call.kwafterstar", lambda c: Call(func=N("f"), args=[Starred(value=N("b"), ctx=Load())], keywords=[keyword(arg="k", value=c)])),
        ("Call.starafterarg", lambda c: Call(func=N("f"), args=[N("b"), Starred(value=c, ctx=Load())], keywords=[])),
        ("Attribute.value", lambda c: Attribute(value=c, attr="x", ctx=Load())),
        ("Subscript.value", lambda c: Subscript(value=c, slice=N("i"), ctx=Load())),
        ("Subscript.slice", lambda c: Subscript(value=N("s"), slice=c, ctx=Load())),
        ("Subscript.tuple", lambda c: Subscript(value=N("s"), slice=Tuple(elts=[c, N("j")], ctx=Load()), ctx=Load())),
        ("Subscript.tuple1", lambda c: Subscript(value=N("s"), slice=Tuple(elts=[c], ctx=Load()), ctx=Load())),
        ("Slice.lower", lambda c: Subscript(value=N("s"), slice=Slice(lower=c, upper=None, step=None), ctx=Load())),
        ("Slice.upper", lambda c: Subscript(value=N("s"), slice=Slice(lower=None, upper=c, step=None), ctx=Load())),
        ("Slice.step", lambda c: Subscript(value=N("s"), slice=Slice(lower=None, upper=None, step=c), ctx=Load())),
        ("Slice.all", lambda c: Subscript(value=N("s"), slice=Slice(lower=N("l"), upper=c, step=N("z")), ctx=Load())),
        ("Slice.intuple", lambda c: Subscript(value=N("s"), slice=Tuple(elts=[Slice(lower=c, upper=N("u"), step=None), N("j")], ctx=Load()), ctx=Load())),
        ("Slice.intuple2", lambda c: Subscript(value=N("s"), slice=Tuple(elts=[N("j"), Slice(lower=None, upper=None, step=c)], ctx=Load()), ctx=Load())),
        ("List.elt", lambda c: List(elts=[N("b"), c], ctx=Load())),
        ("List.elt1", lambda c: List(elts=[c], ctx=Load())),
        ("List.star", lambda c: List(elts=[Starred(value=c, ctx=Load())], ctx=Load())),
        ("Tuple.elt1", lambda c: Tuple(elts=[c], ctx=Load())),
        ("Tuple.elt", lambda c: Tuple(elts=[c, N("b")], ctx=Load())),
        ("Tuple.star", lambda c: Tuple(elts=[Starred(value=c, ctx=Load()), N("b")], ctx=Load())),
        ("Set.elt", lambda c: Set(elts=[c, N("b")])),
        ("Set.elt1", lambda c: Set(elts=[c])),
        ("Set.star", lambda c: Set(elts=[Starred(value=c, ctx=Load())])),
        ("Dict.key", lambda c: Dict(keys=[c], values=[N("v")])),
        ("Dict.value", lambda c: Dict(keys=[N("k")], values=[c])),
        ("Dict.value2", lambda c: Dict(keys=[N("k"), N("k2")], values=[N("v"), c])),
        ("Dict.starstar", lambda c: Dict(keys=[None], values=[c])),
        ("Dict.starstar2", lambda c: Dict(keys=[N("k"), None], values=[N("v"), c])),
        ("NamedExpr.value", lambda c: NamedExpr(target=St("w"), value=c)),
        ("ListComp.elt", lambda c: ListComp(elt=c, generators=[comp(St(), N("it"))])),
        ("ListComp.iter", lambda c: ListComp(elt=N("e"), generators=[comp(St(), c)])),
        ("ListComp.iter2", lambda c: ListComp(elt=N("e"), generators=[comp(St(), N("it")), comp(St("u"), c)])),
        ("ListComp.if", lambda c: ListComp(elt=N("e"), generators=[comp(St(), N("it"), [c])])),
        ("ListComp.if2", lambda c: ListComp(elt=N("e"), generators=[comp(St(), N("it"), [N("p"), c])])),
        ("ListComp.ifbeforefor", lambda c: ListComp(elt=N("e"), generators=[comp(St(), N("it"), [c]), comp(St("u"), N("jt"))])),
        ("ListComp.asynciter", lambda c: ListComp(elt=N("e"), generators=[comp(St(), c, [], 1)])),
        ("SetComp.elt", lambda c: SetComp(elt=c, generators=[comp(St(), N("it"))])),
        ("SetComp.iter", lambda c: SetComp(elt=N("e"), generators=[comp(St(), c)])),
        ("SetComp.if", lambda c: SetComp(elt=N("e"), generators=[comp(St(), N("it"), [c])])),
        ("GeneratorExp.elt", lambda c: GeneratorExp(elt=c, generators=[comp(St(), N("it"))])),
        ("GeneratorExp.iter", lambda c: GeneratorExp(elt=N("e"), generators=[comp(St(), c)])),
        ("GeneratorExp.if", lambda c: GeneratorExp(elt=N("e"), generators=[comp(St(), N("it"), [c])])),
        ("DictComp.key", lambda c: DictComp(key=c, value=N("v"), generators=[comp(St(), N("it"))])),
        ("DictComp.value", lambda c: DictComp(key=N("k"), value=c, generators=[comp(St(), N("it"))])),
        ("DictComp.iter", lambda c: DictComp(key=N("k"), value=N("v"), generators=[comp(St(), c)])),
        ("DictComp.if", lambda c: DictComp(key=N("k"), value=N("v"), generators=[comp(St(), N("it"), [c])])),
        ("Comp.tupletarget", lambda c: ListComp(elt=N("e"), generators=[comp(Tuple(elts=[St("t"), St("u")], ctx=Store()), c)])),
        ("FormattedValue.value", lambda c: JoinedStr(values=[FormattedValue(value=c, conversion=-1, format_spec=None)])),
        ("FormattedValue.value!r", lambda c: JoinedStr(values=[Constant(value="p"), FormattedValue(value=c, conversion=114, format_spec=None)])),
        ("FormattedValue.value:spec", lambda c: JoinedStr(values=[FormattedValue(value=c, conversion=-1, format_spec=JoinedStr(values=[Constant(value=">5")]))])),
        ("FormattedValue.spec", lambda c: JoinedStr(values=[FormattedValue(value=N("x"), conversion=-1, format_spec=JoinedStr(values=[FormattedValue(value=c, conversion=-1, format_spec=None)]))])),
        ("FormattedValue.spec+const", lambda c: JoinedStr(values=[FormattedValue(value=N("x"), conversion=-1, format_spec=JoinedStr(values=[Constant(value="0"), FormattedValue(value=c, conversion=-1, format_spec=None), Constant(value="d")]))])),
        ("Await.value", lambda c: Await(value=c)),
        ("Yield.value", lambda c: Yield(value=c)),
        ("YieldFrom.value", lambda c: YieldFrom(value=c)),
    ]
    return S, note


def build_leaves():
    return [
        ("Name", lambda: N("a")),
        ("Name_", lambda: N("a_")),
        ("Under", lambda: N("_")),
        ("Name9", lambda: N("a9")),
        ("Int", lambda: Constant(value=1)),
        ("Float", lambda: Constant(value=1.5)),
        ("Complex", lambda: Constant(value=2j)),
        ("Str", lambda: Constant(value="s")),
        ("Bytes", lambda: Constant(value=b"y")),
        ("None", lambda: Constant(value=None)),
        ("True", lambda: Constant(value=True)),
        ("Ellipsis", lambda: Constant(value=...)),
        ("BigInt", lambda: Constant(value=10**20)),
        ("EmptyTuple", lambda: Tuple(elts=[], ctx=Load())),
        ("EmptyList", lambda: List(elts=[], ctx=Load())),
        ("EmptyDict", lambda: Dict(keys=[], values=[])),
        ("Set1", lambda: Set(elts=[N("a")])),
        ("FStr", lambda: JoinedStr(values=[Constant(value="z")])),
        ("FStrField", lambda: JoinedStr(values=[FormattedValue(value=N("a"), conversion=-1, format_spec=None)])),
        ("Yield0", lambda: Yield(value=None)),
        ("Call0", lambda: Call(func=N("g"), args=[], keywords=[])),
        ("Attr", lambda: Attribute(value=N("a"), attr="z", ctx=Load())),
    ]


# --------------------------------------------------------------------------- normalised dump
_SKIP = ("ctx", "kind", "type_comment", "lineno", "col_offset", "end_lineno", "end_col_offset")


def ndump(n):
    """ast.dump without ctx/kind/positions; -<number> folded; NaN-safe."""
    if isinstance(n, AST):
        t = type(n)
        if t is Constant:
            v = n.value
            return "C(%s:%r)" % (type(v).__name__, v)
        if t is UnaryOp and type(n.op) is USub and type(n.operand) is Constant and type(n.operand.value) in (int, float):
            v = n.operand.value
            if v == v and (v > 0 or (v == 0 and repr(v) in ("0", "0.0"))):
                return "C(%s:%r)" % (type(v).__name__, -v)
        if t is JoinedStr:
            # CPython 3.12.0/1 leaves an empty Constant after a nested field in a format spec,
            # and adjacent literal parts may or may not be merged: compare the concatenation
            vals, buf = [], None
            for v in n.values:
                if type(v) is Constant and isinstance(v.value, str):
                    buf = (buf or "") + v.value
                else:
                    if buf:
                        vals.append("C(str:%r)" % buf)
                    buf = None
                    vals.append(ndump(v))
            if buf:
                vals.append("C(str:%r)" % buf)
            return "JoinedStr([%s])" % ",".join(vals)
        parts = []
        for f in t._fields:
            if f in _SKIP:
                continue
            try:
                v = getattr(n, f)
            except AttributeError:
                parts.append(f + "=?")
                continue
            parts.append("%s=%s" % (f, ndump(v)))
        return "%s(%s)" % (t.__name__, ",".join(parts))
    if isinstance(n, list):
        return "[" + ",".join(ndump(x) for x in n) + "]"
    return repr(n)


def in_scope(e, want=None):
    """A tree is in scope iff some source text parses to it; ast.unparse is the witness."""
    try:
        with warnings.catch_warnings():
            warnings.simplefilter("ignore")
            t = ast.unparse(e)
            back = ast.parse(t, mode="eval").body
    except Exception:
        return False
    return ndump(back) == (want if want is not None else ndump(e))


def judge(e, unparse, gate=True):
    """Round-trip one tree through `unparse`. Returns 'ok' | 'skip' | ('rejects'|'malformed'|'misbehaves', detail, text)."""
    want = ndump(e)
    if gate and not in_scope(e, want):
        return "skip"
    try:
        with warnings.catch_warnings():
            warnings.simplefilter("error")
            txt = unparse(e)
    except SyntaxError as ex:
        if PY < (3, 12) and "ack slash" in str(ex):
            return "refused-backslash"  # documented refusal below 3.12
        return ("rejects", "%s: %s" % (type(ex).__name__, ex), None)
    except Exception as ex:
        return ("rejects", "%s: %s" % (type(ex).__name__, ex), None)
    if not isinstance(txt, str):
        return ("malformed", "unparser returned %r" % type(txt), None)
    if "\n" in txt or "\r" in txt:
        return ("malformed", "text contains a line break", txt)
    try:
        with warnings.catch_warnings():
            warnings.simplefilter("ignore")
            got = ast.parse(txt, mode="eval").body
    except (SyntaxError, ValueError) as ex:
        return ("malformed", "text does not parse: %s" % ex, txt)
    g = ndump(got)
    if g != want:
        return ("misbehaves", "reparsed tree differs", txt)
    return "ok"

import builtins as _b; _b.__dict__.setdefault("_vpk_log", []).append(__name__)
val = "other.val"

#!/bin/sh
# tools/seed_verify.sh <worktree> <PID> <X>   -- verify a seeded change in its scratch worktree and keep it
# pristine: demo passes; patched: full suite passes, demo fails. Copies to /verif/seeded/<PID>-<X>/.
WT="$1"; PID="$2"; X="$3"
XS=$(echo "$X" | sed "s/^W[3-9]//"); S="$WT/_seeded/$XS"
cd "$WT" || exit 2
git checkout -q -- . || exit 2
[ -z "$(git status --short | grep -v '_seeded')" ] || { echo "worktree not pristine"; exit 2; }
/venv/bin/python "_seeded/$XS/demo.py" >/tmp/sv.$$.pre 2>&1; PRE=$?
git apply "_seeded/$XS/patch.diff" || { echo "patch does not apply"; exit 2; }
/venv/bin/python -m pytest -q -p no:cacheprovider -x >/tmp/sv.$$.t 2>&1; T=$?
TS=$(tail -1 /tmp/sv.$$.t)
/venv/bin/python "_seeded/$XS/demo.py" >/tmp/sv.$$.post 2>&1; POST=$?
git checkout -q -- .
echo "$PID-$X: demo pristine exit=$PRE  suite with patch exit=$T ($TS)  demo with patch exit=$POST"
if [ $PRE -eq 0 ] && [ $T -eq 0 ] && [ $POST -ne 0 ]; then
  D=/verif/seeded/$PID-$X; mkdir -p "$D"
  cp "$S/patch.diff" "$S/demo.py" "$D/"; cp "$S/notes.md" "$D/notes.md" 2>/dev/null
  /venv/bin/python - "$D" "$PID" "$X" "$TS" <<'PY'
import json,sys,os
d,pid,x,ts=sys.argv[1:5]
notes=open(os.path.join(d,'notes.md')).read() if os.path.exists(os.path.join(d,'notes.md')) else ''
meta={"id":pid+"-"+x,"breaks_property":pid,"origin":"independent sub-agent given only the property text and a scratch worktree",
 "needs_to_manifest":"see notes.md","verified":{"demo_on_pristine_tree":"exit 0","suite_with_patch":ts,"demo_with_patch":"non-zero exit"},
 "how_verified":"tools/seed_verify.sh in a scratch worktree of /repo under /tmp (removed afterwards)","detected_by":None}
p=os.path.join(d,'meta.json')
if os.path.exists(p):
    old=json.load(open(p)); meta["detected_by"]=old.get("detected_by"); meta["needs_to_manifest"]=old.get("needs_to_manifest",meta["needs_to_manifest"])
json.dump(meta,open(p,'w'),indent=1)
PY
  echo "kept in $D"
else
  echo "NOT KEPT"; tail -5 /tmp/sv.$$.pre /tmp/sv.$$.post
fi
rm -f /tmp/sv.$$.*

#!/bin/sh
# tools/at_rev.sh <rev> <PID> [tier]  -- run a check against another revision of /repo (scratch worktree, removed afterwards)
REV="$1"; PID="$2"; TIER="${3:-quick}"
W=$(mktemp -d /var/tmp/ol-rev.XXXXXX); rmdir "$W"
git -C /repo worktree add --detach "$W" "$REV" >/dev/null 2>&1 || exit 2
E=$(mktemp -d /var/tmp/ol-ev.XXXXXX)
VF_REPO="$W" VF_EVIDENCE_DIR="$E" VF_REPLAY_DIR="$E/r" /verif/check "$PID" --tier "$TIER" | grep -v "^   \.\.\." | head -${LINES_MAX:-12}
git -C /repo worktree remove --force "$W"; git -C /repo worktree prune; rm -rf "$E"

#!/venv/bin/python
"""tools/triage.py <PID> [quick|thorough|both]   (run by hand, never by a check)

Runs the check in collect mode on /repo's current tree, requires every failing execution to be
explained by a root-cause rule in findings/rules.py, and (re)writes findings/cases/<KF>.keys and
the `open:` lines of known_findings.txt for that property. Refuses to list anything unexplained.
"""
import collections, json, os, subprocess, sys
sys.path.insert(0, "/verif")
from findings.rules import RULES

def main():
    pid = sys.argv[1].upper()
    which = sys.argv[2] if len(sys.argv) > 2 else "both"
    rules = [r for r in RULES if r["property"] == pid]
    fails = []
    if which == "--from":
        # reuse collect files of earlier runs (e.g. tools/thorough_all.sh) instead of re-running; existing entries are kept
        for f in sys.argv[3:]:
            fails += json.load(open(f))
        tiers = []
    else:
        tiers = ["quick", "thorough"] if which == "both" else [which]
    for t in tiers:
        out = "/verif/scratch/triage_%s_%s.json" % (pid, t)
        os.makedirs("/verif/scratch", exist_ok=True)
        env = dict(os.environ, VF_ABORT_AFTER="1000000000", VF_EVIDENCE_DIR="/verif/scratch/ev", VF_REPLAY_DIR="/verif/scratch/replays")
        p = subprocess.run(["/verif/check", pid, "--tier", t, "--collect", out], env=env, capture_output=True, text=True)
        print("%s %s: exit %d; %s" % (pid, t, p.returncode, p.stdout.strip().splitlines()[-1][:200] if p.stdout.strip() else p.stderr[-300:]))
        if p.returncode not in (0, 1):
            print(p.stdout[-2000:], p.stderr[-2000:]); return 2
        fails += json.load(open(out))
    by = collections.defaultdict(dict)   # kfid -> (key, host) -> [mask, klass]
    unexplained = []
    for key, cfg, host, klass, detail, extra in fails:
        hit = [r for r in rules if r["match"](key, cfg, host, klass, detail)]
        if not hit:
            unexplained.append((key, cfg, host, klass, detail)); continue
        ent = by[hit[0]["id"]].setdefault((key, host), [0, klass])
        ent[0] |= 1 << (cfg or 0)
    if unexplained:
        print("REFUSED: %d failing executions are not explained by any rule, e.g." % len(unexplained))
        for u in unexplained[:15]:
            print("   ", u[0][:150], "cfg", u[1], u[2], u[3], u[4][:150])
        return 1
    # when only one tier was collected, keep the entries of the other tier that are already listed
    for r in rules:
        path = "/verif/findings/cases/%s.keys" % r["id"]
        cur = by.get(r["id"], {})
        if which != "both" and os.path.exists(path):
            for cl in open(path, encoding="utf8"):
                cl = cl.rstrip("\n")
                if not cl or cl.startswith("#"): continue
                key, host, mask, klass = cl.split("\t")
                ent = cur.setdefault((key, host), [0, klass]); ent[0] |= int(mask, 16)
        if not cur:
            if os.path.exists(path): os.unlink(path)
            continue
        with open(path, "w", encoding="utf8") as f:
            f.write("# exact failing inputs of %s on /repo HEAD; columns: case key, host, bitmask of failing configurations (hex), failure class\n" % r["id"])
            for (key, host), (mask, klass) in sorted(cur.items()):
                f.write("%s\t%s\t%x\t%s\n" % (key, host, mask, klass))
        print("%s: %d listed inputs" % (r["id"], len(cur)))
        by[r["id"]] = cur
    # rewrite the open: lines of this property
    kf = "/verif/known_findings.txt"
    lines = [l for l in open(kf, encoding="utf8").read().split("\n") if not (l.startswith("open:") and ("property=%s " % pid) in l)]
    while lines and lines[-1] == "": lines.pop()
    for r in rules:
        if by.get(r["id"]):
            lines.append("open: property=%s id=%s cases=findings/cases/%s.keys :: %s" % (pid, r["id"], r["id"], r["desc"]))
    open(kf, "w", encoding="utf8").write("\n".join(lines) + "\n")
    return 0

if __name__ == "__main__":
    sys.exit(main())

#!/bin/sh
# tools/thorough_all.sh [IDs...]  -- run thorough tiers one after another in collect mode (tool only)
cd /verif
IDS="${*:-C07 C08 C14 C16 C11 C04 C12 C17 C10 C09 C02 C15 C13 C03 C01 C05 C06}"
for id in $IDS; do
  s=$(date +%s)
  VF_ABORT_AFTER=100000000 VF_EVIDENCE_DIR=/verif/scratch/ev_thorough VF_REPLAY_DIR=/verif/scratch/replays_thorough timeout 14000 ./check $id --tier thorough --collect scratch/thorough_$id.json > scratch/thorough_$id.log 2>&1
  echo "$id rc=$? $(( $(date +%s) - s ))s :: $(tail -1 scratch/thorough_$id.log | cut -c1-300)" >> scratch/thorough_summary.txt
done

#!/venv/bin/python
"""tools/summ.py <collect.json> [maxlines]  -- greedy token cover of collected failures (tool only)."""
import json, sys, collections, re
fails = json.load(open(sys.argv[1]))
mx = int(sys.argv[2]) if len(sys.argv) > 2 else 25
print(len(fails), "failing executions,", len({f[0] for f in fails}), "distinct keys")
def toks(f):
    if f[0].startswith(("c06:", "c12:")):
        t = set(re.findall(r"[A-Z]\[\w+\]", f[0]))
    else:
        t = set(x for x in re.split(r"[>|, ()\[\]']+", f[0].split(":", 2)[-1]) if x)
    t.add("detail=" + re.sub(r"[0-9]+", "N", f[4])[:40])
    t.add("klass=" + f[3]); t.add("cfg=%s" % f[1]); t.add("host=" + f[2])
    return t
rest = [(f, toks(f)) for f in fails]
n = 0
while rest and n < mx:
    cnt = collections.Counter()
    for f, t in rest:
        cnt.update(x for x in t if not x.startswith(("klass=", "cfg=", "host=", "detail=")))
    if not cnt: break
    tok, c = cnt.most_common(1)[0]
    grp = [f for f, t in rest if tok in t]
    rest = [(f, t) for f, t in rest if tok not in t]
    kl = collections.Counter(f[3] for f in grp)
    cf = collections.Counter(f[1] for f in grp)
    ex = min(grp, key=lambda f: len(f[0]))
    print("%7d  token %-28s %s cfgs=%s\n         e.g. %s :: %s %s" % (c, tok, dict(kl), sorted(cf, key=str), ex[0][:140], ex[4][:110], (json.dumps(ex[5])[:220] if ex[5] else "")))
    n += 1
print("unexplained remainder:", len(rest))

#!/venv/bin/python
"""tools/mutation_wave.py <seeded-id> [PID ...] [--tier quick]
Apply /verif/seeded/<id>/patch.diff to a scratch worktree of /repo (under /var/tmp, removed
afterwards) and run the given checks (default: the property the change breaks) against it with
VF_REPO. Prints killed/survived. Never touches /repo's working tree and never writes evidence
into /verif (VF_EVIDENCE_DIR is redirected)."""
import json, os, subprocess, sys, tempfile, shutil

def main():
    args = [a for a in sys.argv[1:] if not a.startswith("--")]
    tier = "quick"
    for a in sys.argv[1:]:
        if a.startswith("--tier="):
            tier = a.split("=", 1)[1]
    sid = args[0]
    sdir = os.path.join("/verif/seeded", sid)
    meta = json.load(open(os.path.join(sdir, "meta.json")))
    pids = args[1:] or [meta["breaks_property"]]
    wt = tempfile.mkdtemp(prefix="ol-mut-%s-" % sid, dir="/var/tmp")
    os.rmdir(wt)
    subprocess.run(["git", "-C", "/repo", "worktree", "add", "--detach", wt, "HEAD"], check=True, capture_output=True)
    try:
        pf = os.path.join(sdir, "patch.rebased.diff")
        if not os.path.exists(pf):
            pf = os.path.join(sdir, "patch.diff")
        r = subprocess.run(["git", "-C", wt, "apply", pf], capture_output=True, text=True)
        if r.returncode != 0:
            print("%s: PATCH DOES NOT APPLY to current HEAD: %s" % (sid, r.stderr.strip()[:300]))
            return 2
        ev = tempfile.mkdtemp(prefix="ol-ev-", dir="/var/tmp")
        out = {}
        for pid in pids:
            env = dict(os.environ, VF_REPO=wt, VF_EVIDENCE_DIR=ev, VF_REPLAY_DIR=os.path.join(ev, "replays"))
            p = subprocess.run(["/verif/check", pid, "--tier", tier], capture_output=True, text=True, env=env)
            viol = [l for l in p.stdout.splitlines() if l.startswith("VIOLATION")]
            first = ""
            base = set(open("/verif/scratch/baseline_cases_%s.txt" % pid).read().split("\n")) if os.path.exists("/verif/scratch/baseline_cases_%s.txt" % pid) else set()
            lines = p.stdout.splitlines()
            for i, l in enumerate(lines):
                if l.startswith("VIOLATION") and i + 1 < len(lines) and lines[i + 1].split(" cfg=")[0].strip() not in base:
                    first = "\n".join(lines[i:i+2]); break
            verdict = "KILLED" if (p.returncode == 1 and viol) else ("SURVIVED" if p.returncode == 0 else "ERROR rc=%d" % p.returncode)
            out[pid] = verdict
            print("%s vs %s [%s]: %s (%d violations)%s" % (sid, pid, tier, verdict, len(viol), ("\n" + first[:600]) if first else ("\n" + p.stdout[-600:] + p.stderr[-600:] if verdict.startswith("ERROR") else "")))
        shutil.rmtree(ev, ignore_errors=True)
        return 0
    finally:
        subprocess.run(["git", "-C", "/repo", "worktree", "remove", "--force", wt], capture_output=True)
        subprocess.run(["git", "-C", "/repo", "worktree", "prune"], capture_output=True)
        shutil.rmtree(wt, ignore_errors=True)

if __name__ == "__main__":
    sys.exit(main())

#!/bin/sh
# tools/matrix.sh <pattern> [extra PIDs]  -- run every seeded change matching <pattern> against its property's quick check (3 in parallel)
PAT="$1"; shift
OUT=/verif/scratch/matrix.$(date +%s).txt
ls /verif/seeded | grep -E "$PAT" | xargs -P 3 -I{} sh -c 'timeout 1500 /verif/tools/mutation_wave.py {} '"$*"' 2>&1 | grep -E "KILLED|SURVIVED|ERROR|NOT APPLY" | cut -c1-200' >> "$OUT"
sort "$OUT"; echo "== $OUT"

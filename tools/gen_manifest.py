#!/venv/bin/python
"""Regenerate MANIFEST.json from the table below (keeps it valid at all times)."""
import json, os, sys
sys.path.insert(0, "/verif")
PROPS = [json.loads(l)["id"] for l in open("/verif/properties.jsonl")]

CHECKS = {
    "C05": dict(
        category="model_checking",
        technique="stateless schedule exploration (replay-from-prefix DFS over environment answers) of every control-flow skeleton up to a size bound, differential against CPython",
        text="Every control-flow skeleton of a small grammar up to a size bound, in 8 placements, is executed under EVERY schedule of environment answers (condition outcomes, iterator lengths); each complete schedule is replayed on the converted program under each option combination and the full ordered probe trace must be identical. Exhaustive within the stated bounds; nothing is sampled.",
        note="Trusted: CPython as reference semantics; probe functions as the only observable effects; horizon of 2 true answers per while-site and 400 probe calls.",
        ref="DESIGN.md 3 C05, 5b E2",
    ),
    "C03": dict(
        category="exploration",
        technique="bounded-exhaustive enumeration of expression-tree derivations (every slot x slot x leaf composition, shape families, the whole stdlib corpus, converter-emitted trees), each round-tripped through the real unparser against ast.parse",
        text="Every composition of (node kind, child slot) productions to depth 2 (quick: plus depth 3 hazard x all x hazard; thorough: depth 3 in full, depth 4 over the hazard set), all 756 lambda signatures, all call/slice/comparison/comprehension/dict shapes, every expression of the standard library and every tree convert() emits for a program pool are unparsed by the real expr_unparse and reparsed; the reparsed tree must be identical (every field compared). Exhaustive within the bounds; the space is enumerated, not sampled.",
        note="Trusted: ast.parse as the definition of what a text denotes; ast.unparse only as a witness that a built tree is denotable; comparison ignores ctx/kind/positions and folds -<number>.",
        ref="DESIGN.md 3 C03",
    ),
    "C04": dict(
        category="exploration",
        technique="bounded-exhaustive enumeration of literals (all strings over a hazard alphabet up to length 3/4 in 10 contexts, every code point 0..0x2FF, every byte, numeric constants x contexts, f-string shape product to nesting depth 2/3, all stdlib literals) through the real unparser against ast.parse",
        text="All strings over an 18-character hazard alphabet (quotes, backslash, braces, LF, CR, NUL, surrogate, separators ...) up to length 3 (quick) / 4 (thorough) in 10 syntactic contexts, every code point 0..0x2FF and boundary points, every byte value, numeric/non-finite constants in 14 contexts, f-strings = conversion x spec shape x value kind nested to depth 2/3, and every literal of the standard library: the text must be one physical line and parse back to identical values and f-string structure.",
        note="Trusted: ast.parse; a line break is LF or CR; below 3.12 the unparser's SyntaxError for a backslash inside an f-string is the documented refusal.",
        ref="DESIGN.md 3 C04",
    ),
    "C01": dict(
        category="exploration",
        technique="bounded-exhaustive enumeration of program derivations (statement grammar over feature atoms and compound frames, <= 3/4 nodes) x 8 option combinations, differential execution against CPython",
        text="Every derivation of a statement grammar (27 simple feature atoms, 3 interrupts, 15 compound frames with block holes) with at most 3 (quick) / 4 (thorough) statement nodes, plus a block of n simple statements for every n up to twice the converter's chunk length + 10 in 7 kinds of block, is converted under all 8 option combinations and evaluated; stdout and the canonical user globals must equal those of exec(source), and only __ol_*/itertools/importlib names may be added. The space is enumerated completely.",
        note="Trusted: CPython as reference semantics; the canonical observation (functions/classes by structure, no metadata, no annotations).",
        ref="DESIGN.md 3 C01",
    ),
    "C06": dict(
        category="exploration",
        technique="bounded-exhaustive enumeration of scope trees (<= 3/4 scopes of kinds module/def/class/lambda/listcomp/genexpr x one role per scope from a complete role catalogue) x 8 option combinations, differential execution against CPython",
        text="Every scope tree with at most 3 (quick) / 4 (thorough) scopes and every assignment of binding roles (read, assign, augmented, walrus, parameter kinds, for/comprehension target, global/nonlocal forms, def/class/import binding, read-then-assign) to the tracked name is rendered to a program that logs the name before and after each inner scope runs; the log and final globals of every conversion must equal CPython's. In addition every chain of 4 (thorough: 4 and 5) scopes and every fork (a function with a sibling def/class next to a chain of <= 2 scopes) over a reduced role catalogue, where every function also owns an unrelated captured variable. Complete within the bound.",
        note="Trusted: CPython for name resolution; candidates CPython rejects or that raise are outside the fragment (counted).",
        ref="DESIGN.md 3 C06",
    ),
    "C10": dict(
        category="model_checking",
        technique="explicit-state breadth-first exploration of API action histories on the real objects (state = reference-model option values x structural hash of the implementation's hidden module/class state), plus exhaustive no-deduplication histories to depth 3/4; every conversion compared with a fresh-process reference",
        text="All histories of {new options object, set option (legal/illegal), convert program p with object o / with no options, under RNG keep/reseed/forced-collision} up to depth 5 (quick) / 6 (thorough) are explored breadth-first with state deduplication over (believed option values, hidden implementation state), each replayed on fresh real objects in a forked pristine process; additionally every history up to length 3/4 over the core alphabet is run without deduplication. Every conversion must equal the same call made in a fresh process (references agree under PYTHONHASHSEED 0..3) up to __ol_ renaming.",
        note="Trusted: fork of a pristine process = fresh; hidden-state hash covers module/class-level mutables, descriptors, lru caches, closure cells of oneliner.*; random ids abstracted.",
        ref="DESIGN.md 3 C10, 5b E3",
    ),
    "C16": dict(
        category="model_checking",
        technique="exhaustive enumeration of CLI argument histories (length <= 2/3 over a 29-element alphabet x output modes x input files), each a real `python -m oneliner` process, against an option-state reference model and fresh-process API results",
        text="Every sequence of up to 2 (quick) / 3 (thorough) option arguments (legal -C, illegal values, unknown/attribute names, malformed forms, --unparser) x {stdout, -o new file, -o existing file} x input files is run as a real process; legal histories must exit 0 and write exactly the API result for the model's option state; any illegal element must give a non-zero exit with no file created or modified.",
        note="Trusted: the 10-line reference model of option parsing; PYTHONIOENCODING=utf-8 for printed output.",
        ref="DESIGN.md 3 C16",
    ),
    "C07": dict(
        category="model_checking",
        technique="stateless schedule exploration (all environment answers: truthiness of every condition operand, in-place capability of every loaded operand) of statement templates in which every subexpression is a logging probe, differential against CPython",
        text="About 200 statement templates (every assignment target shape incl. chained/nested/starred, 13 augmented operators x 4 target kinds, calls, def defaults/decorators 0..2 each, class bases/metaclass/keywords/decorators, if/while/for headers, return, comparison chains, boolean operators, comprehensions, f-strings) x 3 placements have every subexpression replaced by a logging probe whose results log the data-model operations applied to them; every schedule of environment answers is explored on the source and replayed on each of the 8 conversions; the ordered logs must be identical.",
        note="Trusted: CPython for evaluation order; annotations are not probed; class probes return real classes (no __mro_entries__); creation-hook timing is not logged.",
        ref="DESIGN.md 3 C07, 5b E2",
    ),
    "C13": dict(
        category="exploration",
        technique="bounded-exhaustive enumeration of three products (unpack patterns x source lengths x source kinds; slice bounds x values; 13 operators x target kinds x operand types x placements), differential execution against CPython",
        text="All target patterns to depth 2 (thorough: 3) with the star at every position, tuple/list brackets and name/attribute/subscript/slice leaves, from sources of every length the star allows and 10 source kinds (incl. one-shot iterators, nested generators, dict views); all slice-bound combinations; the full operator table over 14 operand types (incl. user classes with, without and with odd in-place methods) in 4 placements with an alias and the store count observed.",
        note="Trusted: CPython; programs on which it raises are outside the fragment. quick runs 2 of 8 option combinations for the two big products, thorough all 8.",
        ref="DESIGN.md 3 C13",
    ),
    "C02": dict(
        category="exploration",
        technique="bounded-exhaustive enumeration of syntactically valid modules (statement-host x hazard-expression product, target/import shape products, the program spaces of the other checks, the stdlib corpus with unsupported statements stripped) x 8 option combinations; every returned text compiled in eval mode and compared with the emitted tree",
        text="Every (statement host, hazard expression) pair (45 hosts x 60 shapes; thorough: plus 17 nesting wrappers), every target and import shape, every program of the C01/C06/C08/C13/C14 spaces and the stripped standard-library modules are converted under all option combinations; whenever conversion returns, the text must have no line break, compile as one expression and (oneliner unparser) parse back to the tree convert() emitted.",
        note="Trusted: compile(..., 'eval') of CPython; rejection (any exception) is allowed by the property and only counted.",
        ref="DESIGN.md 3 C02",
    ),
    "C08": dict(
        category="exploration",
        technique="bounded-exhaustive enumeration of (host position x unsupported construct) injections and illegal placements, each converted under 8 option combinations; accepted = violation; control hosts must convert",
        text="20 statement hosts x 43 statement constructs, 84 expression hosts (every expression slot of the grammar incl. annotations) x 12 expression constructs and 39 illegal placements (break/continue outside loops, return outside functions, double starred targets - including in dead code): whenever ast.parse accepts the text, conversion must raise under every option combination; the same hosts with a harmless filler must convert.",
        note="Trusted: ast.parse decides what is a case; any exception counts as rejection.",
        ref="DESIGN.md 3 C08",
    ),
    "C09": dict(
        category="model_checking",
        technique="exhaustive identifier x role x feature matrix executed differentially against CPython, plus stateless schedule exploration of the random source (every draw answered 'fresh' or 'equal to an earlier value', deviation-bounded) with the output compared up to renaming and executed",
        text="Every cell of (28 risky identifiers incl. every builtin the generated code calls, read from generated ASTs) x (15 binding roles) x (25 helper-introducing features + 11 scope-local features) under 8 option combinations must behave like the same program under CPython; and for 12 programs with several temporaries every schedule of RNG answers with up to 2 (quick) / 4 (thorough, short programs) forced equalities must give output identical up to renaming that behaves like the source.",
        note="Trusted: CPython; random.choices is the only randomness and is owned by the harness.",
        ref="DESIGN.md 3 C09, 5b E2",
    ),
    "C11": dict(
        category="model_checking",
        technique="exhaustive enumeration of all 756 parameter lists x 7 variants (def, annotated def, lambda, parameters captured by closures, defaults reading the defining scope, parameters read by a class body, parameters captured and re-bound) x 3 placements, each with its complete call battery (environment answers) executed on the reference and on every conversion",
        text="All 756 parameter lists (<= 2 per kind, every legal default pattern) as def / annotated def / lambda / def whose parameters are captured by inner scopes, defined at module, function and class level, under 8 option combinations: definition-time log of default and decorator probes, inspect.signature (modulo annotations) and the result of every call shape in the battery (0..n+1 positionals x keyword subsets incl. unknown and duplicate names; return taken or not) must match CPython.",
        note="Trusted: CPython's argument binding; only the TypeError type is compared.",
        ref="DESIGN.md 3 C11",
    ),
    "C12": dict(
        category="exploration",
        technique="bounded-exhaustive enumeration of the class skeleton product (bases x metaclass x keywords x decorators x member kinds x placements) x 8 option combinations, observed by an injected observer and compared with CPython",
        text="Every skeleton of {4 base shapes} x {metaclass} x {class keyword} x {0..2 decorators} x {35 member kinds; thorough: all pairs} (+ 9 further header shapes: keyword order around metaclass=, several keywords, ** expansion, with a reduced member set) x {5 placements incl. header helpers local to a function / members of an enclosing class}: filtered vars(cls), MRO, metaclass, results of calling every member on instances and subclasses, property behaviour and name binding must equal CPython's.",
        note="Trusted: CPython; namespace-observing creation hooks (__set_name__, __slots__, metaclass reading members) are outside the fragment and not generated.",
        ref="DESIGN.md 3 C12",
    ),
    "C14": dict(
        category="model_checking",
        technique="exhaustive enumeration of import-statement histories (<= 2/3 statements over 20 forms) x placement x caller identity against a vendored logging package tree, sys.modules purged per run; import log, sys.modules delta and bound objects compared with CPython",
        text="Every sequence of up to 2 (quick) / 3 (thorough) import statements over 20 forms (plain, dotted, aliased, multi-name, from-import of attributes and unimported submodules, relative level 1 and 2) in 8 placements (module, function, class, function whose inner function and inner class body read the names as free variables, inner function with nonlocal, function with global, module level after while and for-break loops, nested global declaration under a function importing the same names), as a top-level script and as a module inside the package, under all option combinations: which modules are executed, in which order, what ends up in sys.modules and what every bound name refers to must equal CPython's.",
        note="Trusted: CPython import system; the vendored package tree is the whole import universe explored.",
        ref="DESIGN.md 3 C14",
    ),
    "C15": dict(
        category="exploration",
        technique="bounded-exhaustive enumeration of 3.8-syntax programs (C01/C06/C12/C13 spaces, f-string/literal shapes, syntax-sensitive programs) x 8 option combinations x host interpreters, every distinct output text evaluated by a batch worker under each of Python 3.8..3.13 against that runtime's own execution of the source; plus parse-portability of the oneliner unparser over C03's expression space on every runtime",
        text="Every program of the listed spaces that python3.8 compiles and runs is converted under all option combinations on hosts 3.10-3.13; every distinct output text is evaluated on each of 3.8, 3.9, 3.10, 3.11, 3.12, 3.13 and must match that runtime's execution of the source; every in-scope expression tree of C03's space (depth<=1 full, depth 2/3 over hazard sets) unparsed by the oneliner unparser must parse to the same tree on every runtime where the tree is denotable.",
        note="Trusted: the six installed interpreters; 3.14 is not installed (stated limit). Each runtime computes its own reference.",
        ref="DESIGN.md 3 C15",
    ),
    "C17": dict(
        category="exploration",
        technique="exhaustive geometric size grid over 30 parameterised program families x 8 option combinations, each (family, N) in a fresh subprocess with the default recursion limit, compared with CPython's own acceptance and output of the source",
        text="30 families (statement sequences at every level and after early exits, elif chains, operator/call/attribute/subscript chains, nested blocks, brackets, lambdas, long targets and right-hand sides, many definitions) at N in {10,30,100,300,1000} (thorough: +3000, 10000), cut where CPython refuses the source: conversion must succeed and the output must compile, evaluate and print the same under every option combination.",
        note="Trusted: CPython's acceptance of the source in the same kind of subprocess; slowness (120 s per step) is never a violation.",
        ref="DESIGN.md 3 C17",
    ),
}

def main():
    checks = []
    for pid in PROPS:
        if pid not in CHECKS:
            continue
        c = CHECKS[pid]
        checks.append({
            "property_id": pid,
            "quick_cmd": "./check %s --tier quick" % pid,
            "thorough_cmd": "./check %s --tier thorough" % pid,
            "evidence_file": "/verif/evidence/%s.json" % pid,
            "replay_cmd_template": "./check %s --replay {path}" % pid,
            "engine": "vf",
            "level_claimed": {"category": c["category"], "text": c["text"], "design_ref": c["ref"]},
            "level_note": c["note"],
            "technique": c["technique"],
        })
    na = [{"property_id": p, "reason": "not claimed yet: its bounded-exhaustive check is designed (DESIGN.md section 3) but not built at this commit"} for p in PROPS if p not in CHECKS]
    m = {
        "version": 1,
        "setup_cmd": "true",
        "hooks": {
            "guard": "ONELINER_PY_VERIF",
            "enable": "no hooks are needed: every observation point is external and the RNG is owned by monkeypatching from the harness; the guard is reserved and unused",
            "baseline_off_cmd": "cd /repo && /venv/bin/python -m pytest -ra -q -p no:cacheprovider --timeout=900 --continue-on-collection-errors",
            "source_commits": [],
            "add_only": True,
        },
        "engines": [{
            "name": "vf",
            "path": "/verif/vf",
            "serves_properties": [c["property_id"] for c in checks],
            "kind_free_text": "hand-written explicit-state / stateless explorers in Python (derivation, schedule and history exploration) run directly on the implementation with CPython as the reference model",
        }],
        "checks": checks,
        "not_applicable": na,
        "notes": "All checks run /repo's current working tree in-process (no build step). ./check <ID> --tier quick|thorough; VERIF_SEED only seeds the RNG behind __ol_ names and rotates shard dispatch order; coverage never depends on it.",
    }
    json.dump(m, open("/verif/MANIFEST.json", "w"), indent=1)
    print("MANIFEST.json: %d checks, %d not claimed" % (len(checks), len(na)))

if __name__ == "__main__":
    main()

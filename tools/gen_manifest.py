#!/venv/bin/python
"""Regenerate MANIFEST.json from the table below (keeps it valid at all times)."""
import json, os, sys
sys.path.insert(0, "/verif")
PROPS = [json.loads(l)["id"] for l in open("/verif/properties.jsonl")]

CHECKS = {
    "C05": dict(
        category="model_checking",
        technique="stateless schedule exploration (replay-from-prefix DFS over environment answers) of every control-flow skeleton up to a size bound, differential against CPython",
        text="Every control-flow skeleton of a small grammar up to a size bound, in 8 placements, is executed under EVERY schedule of environment answers (condition outcomes, iterator lengths); each complete schedule is replayed on the converted program under each option combination and the full ordered probe trace must be identical. Exhaustive within the stated bounds; nothing is sampled.",
        note="Trusted: CPython as reference semantics; probe functions as the only observable effects; horizon of 2 true answers per while-site and 400 probe calls.",
        ref="DESIGN.md 3 C05, 5b E2",
    ),
    "C03": dict(
        category="exploration",
        technique="bounded-exhaustive enumeration of expression-tree derivations (every slot x slot x leaf composition, shape families, the whole stdlib corpus, converter-emitted trees), each round-tripped through the real unparser against ast.parse",
        text="Every composition of (node kind, child slot) productions to depth 2 (quick: plus depth 3 hazard x all x hazard; thorough: depth 3 in full, depth 4 over the hazard set), all 756 lambda signatures, all call/slice/comparison/comprehension/dict shapes, every expression of the standard library and every tree convert() emits for a program pool are unparsed by the real expr_unparse and reparsed; the reparsed tree must be identical (every field compared). Exhaustive within the bounds; the space is enumerated, not sampled.",
        note="Trusted: ast.parse as the definition of what a text denotes; ast.unparse only as a witness that a built tree is denotable; comparison ignores ctx/kind/positions and folds -<number>.",
        ref="DESIGN.md 3 C03",
    ),
    "C04": dict(
        category="exploration",
        technique="bounded-exhaustive enumeration of literals (all strings over a hazard alphabet up to length 3/4 in 10 contexts, every code point 0..0x2FF, every byte, numeric constants x contexts, f-string shape product to nesting depth 2/3, all stdlib literals) through the real unparser against ast.parse",
        text="All strings over an 18-character hazard alphabet (quotes, backslash, braces, LF, CR, NUL, surrogate, separators ...) up to length 3 (quick) / 4 (thorough) in 10 syntactic contexts, every code point 0..0x2FF and boundary points, every byte value, numeric/non-finite constants in 14 contexts, f-strings = conversion x spec shape x value kind nested to depth 2/3, and every literal of the standard library: the text must be one physical line and parse back to identical values and f-string structure.",
        note="Trusted: ast.parse; a line break is LF or CR; below 3.12 the unparser's SyntaxError for a backslash inside an f-string is the documented refusal.",
        ref="DESIGN.md 3 C04",
    ),
}

def main():
    checks = []
    for pid in PROPS:
        if pid not in CHECKS:
            continue
        c = CHECKS[pid]
        checks.append({
            "property_id": pid,
            "quick_cmd": "./check %s --tier quick" % pid,
            "thorough_cmd": "./check %s --tier thorough" % pid,
            "evidence_file": "/verif/evidence/%s.json" % pid,
            "replay_cmd_template": "./check %s --replay {path}" % pid,
            "engine": "vf",
            "level_claimed": {"category": c["category"], "text": c["text"], "design_ref": c["ref"]},
            "level_note": c["note"],
            "technique": c["technique"],
        })
    na = [{"property_id": p, "reason": "not claimed yet: its bounded-exhaustive check is designed (DESIGN.md section 3) but not built at this commit"} for p in PROPS if p not in CHECKS]
    m = {
        "version": 1,
        "setup_cmd": "true",
        "hooks": {
            "guard": "ONELINER_PY_VERIF",
            "enable": "no hooks are needed: every observation point is external and the RNG is owned by monkeypatching from the harness; the guard is reserved and unused",
            "baseline_off_cmd": "cd /repo && /venv/bin/python -m pytest -ra -q -p no:cacheprovider --timeout=900 --continue-on-collection-errors",
            "source_commits": [],
            "add_only": True,
        },
        "engines": [{
            "name": "vf",
            "path": "/verif/vf",
            "serves_properties": [c["property_id"] for c in checks],
            "kind_free_text": "hand-written explicit-state / stateless explorers in Python (derivation, schedule and history exploration) run directly on the implementation with CPython as the reference model",
        }],
        "checks": checks,
        "not_applicable": na,
        "notes": "All checks run /repo's current working tree in-process (no build step). ./check <ID> --tier quick|thorough; VERIF_SEED only seeds the RNG behind __ol_ names and rotates shard dispatch order; coverage never depends on it.",
    }
    json.dump(m, open("/verif/MANIFEST.json", "w"), indent=1)
    print("MANIFEST.json: %d checks, %d not claimed" % (len(checks), len(na)))

if __name__ == "__main__":
    main()

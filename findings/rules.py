"""Root-cause rules for OPEN findings (used only by tools/triage.py, never by a check).

A rule attributes a failing execution to a root cause by a syntactic trigger on the INPUT (its
case key) plus the observed failure class. tools/triage.py refuses to list any failing input
that no rule explains. At run time known-ness is decided by the exact listed input only.
"""
import re

RULES = [
    dict(
        id="KF-C17-def-class-nesting-depth",
        property="C17",
        desc="def statements nested 50 deep (chain_call + ast.unparse) / 98 deep, class statements nested 98 deep: every level of the source becomes several "
        "levels of parentheses in the output, and CPython's parser refuses more than 200 nested parentheses / overflows its stack, while it accepts 99 "
        "indentation levels in the source (PendingFunctionDef/PendingClassDef.get_result: lambda + list display + subscript per level)",
        match=lambda key, cfg, host, klass, detail: bool(re.match(r"c17:nested-(def|class):(50|90|98)$", key)) and klass == "malformed",
    ),
    dict(
        id="KF-C09-user-identifier-dunder-class",
        property="C09",
        desc="a user identifier spelled __class__ (variable, parameter, function/class/method name, alias): the lowering binds the real name __class__ in "
        "every class loader and reads it in methods to emulate the zero-argument super() cell, so the user's binding is captured or clobbered "
        "(PendingClassDef.get_result '__class__ := K'; PendingFunctionDef.get_result free __class__)",
        match=lambda key, cfg, host, klass, detail: bool(re.match(r"c09:(matrix|local):__class__:", key)),
    ),
    dict(
        id="KF-C13-inplace-notimplemented",
        property="C13",
        desc="augmented assignment whose left operand has an in-place method that returns NotImplemented: the result is stored instead of "
        "falling back to the binary operator (PendingAugAssign._aug_assign_expr: 'x.__iop__(v) if hasattr(x, \"__iop__\") else x op v')",
        match=lambda key, cfg, host, klass, detail: bool(re.match(r"c13:ops:\w+:WN:", key)) and klass == "misbehaves" and "NotImplemented" in detail,
    ),
]
